// Package codec is engine E3: exhaustive enumeration of key values for the
// numeric encodings (property C07).
package codec

import (
	"bytes"
	"fmt"
	"math"
	"math/bits"
	"strconv"
	"strings"
	"time"

	art "github.com/Clement-Jean/go-art"

	"verif/hist"
)

type kind int

const (
	kUnsigned kind = iota
	kSigned
	kFloat
)

// typ describes one key type through bit patterns, so that the oracle's order
// is generated from bit patterns and never from the encoder.
type typ struct {
	name  string
	bits  int
	kind  kind
	enc   func(pattern uint64) []byte
	dec   func([]byte) uint64
	width int
}

func types() []typ {
	uw := bits.UintSize
	return []typ{
		{"uint8", 8, kUnsigned, func(p uint64) []byte { _, b := art.UnsignedBinaryKey[uint8]{}.Transform(uint8(p)); return b }, func(b []byte) uint64 { return uint64(art.UnsignedBinaryKey[uint8]{}.Restore(b)) }, 1},
		{"uint16", 16, kUnsigned, func(p uint64) []byte { _, b := art.UnsignedBinaryKey[uint16]{}.Transform(uint16(p)); return b }, func(b []byte) uint64 { return uint64(art.UnsignedBinaryKey[uint16]{}.Restore(b)) }, 2},
		{"uint32", 32, kUnsigned, func(p uint64) []byte { _, b := art.UnsignedBinaryKey[uint32]{}.Transform(uint32(p)); return b }, func(b []byte) uint64 { return uint64(art.UnsignedBinaryKey[uint32]{}.Restore(b)) }, 4},
		{"uint64", 64, kUnsigned, func(p uint64) []byte { _, b := art.UnsignedBinaryKey[uint64]{}.Transform(p); return b }, func(b []byte) uint64 { return art.UnsignedBinaryKey[uint64]{}.Restore(b) }, 8},
		{"uint", uw, kUnsigned, func(p uint64) []byte { _, b := art.UnsignedBinaryKey[uint]{}.Transform(uint(p)); return b }, func(b []byte) uint64 { return uint64(art.UnsignedBinaryKey[uint]{}.Restore(b)) }, uw / 8},
		{"int8", 8, kSigned, func(p uint64) []byte { _, b := art.SignedBinaryKey[int8]{}.Transform(int8(uint8(p))); return b }, func(b []byte) uint64 { return uint64(uint8(art.SignedBinaryKey[int8]{}.Restore(b))) }, 1},
		{"int16", 16, kSigned, func(p uint64) []byte { _, b := art.SignedBinaryKey[int16]{}.Transform(int16(uint16(p))); return b }, func(b []byte) uint64 { return uint64(uint16(art.SignedBinaryKey[int16]{}.Restore(b))) }, 2},
		{"int32", 32, kSigned, func(p uint64) []byte { _, b := art.SignedBinaryKey[int32]{}.Transform(int32(uint32(p))); return b }, func(b []byte) uint64 { return uint64(uint32(art.SignedBinaryKey[int32]{}.Restore(b))) }, 4},
		{"int64", 64, kSigned, func(p uint64) []byte { _, b := art.SignedBinaryKey[int64]{}.Transform(int64(p)); return b }, func(b []byte) uint64 { return uint64(art.SignedBinaryKey[int64]{}.Restore(b)) }, 8},
		{"int", uw, kSigned, func(p uint64) []byte { _, b := art.SignedBinaryKey[int]{}.Transform(int(p)); return b }, func(b []byte) uint64 {
			v := art.SignedBinaryKey[int]{}.Restore(b)
			if uw == 32 {
				return uint64(uint32(v))
			}
			return uint64(v)
		}, uw / 8},
		{"float32", 32, kFloat, func(p uint64) []byte {
			_, b := art.FloatBinaryKey[float32]{}.Transform(math.Float32frombits(uint32(p)))
			return b
		}, func(b []byte) uint64 { return uint64(math.Float32bits(art.FloatBinaryKey[float32]{}.Restore(b))) }, 4},
		{"float64", 64, kFloat, func(p uint64) []byte {
			_, b := art.FloatBinaryKey[float64]{}.Transform(math.Float64frombits(p))
			return b
		}, func(b []byte) uint64 { return math.Float64bits(art.FloatBinaryKey[float64]{}.Restore(b)) }, 8},
	}
}

func (t *typ) mask() uint64 {
	if t.bits == 64 {
		return math.MaxUint64
	}
	return 1<<uint(t.bits) - 1
}
func (t *typ) sign() uint64 { return 1 << uint(t.bits-1) }

// negInf / posInf bit patterns for float types.
func (t *typ) posInf() uint64 {
	if t.bits == 32 {
		return 0x7f800000
	}
	return 0x7ff0000000000000
}

// count is the number of non-NaN values in the oracle's total order.
// (for 64-bit integer types the count 2^64 does not fit: ok=false means "all uint64 indexes are valid")
func (t *typ) count() (n uint64, bounded bool) {
	if t.kind == kFloat {
		return 2 * (t.posInf() + 1), true
	}
	if t.bits == 64 {
		return 0, false
	}
	return 1 << uint(t.bits), true
}

// ord maps an index of the total order to the bit pattern of the value there:
// integers numerically; floats -Inf, negatives by decreasing magnitude, -0, +0, positives, +Inf.
func (t *typ) ord(k uint64) uint64 {
	switch t.kind {
	case kUnsigned:
		return k
	case kSigned:
		return (k ^ t.sign()) & t.mask()
	}
	half := t.posInf() + 1
	if k < half {
		return (t.sign() | t.posInf()) - k // -Inf, ..., -0
	}
	return k - half // +0, ..., +Inf
}

func (t *typ) isNaN(p uint64) bool {
	return t.kind == kFloat && p&t.posInf() == t.posInf() && p&(t.posInf()^(t.sign()-1)) != 0
}

// show renders a bit pattern as a value.
func (t *typ) show(p uint64) string {
	switch t.kind {
	case kUnsigned:
		return fmt.Sprintf("%s(%d)", t.name, p)
	case kSigned:
		sh := uint(64 - t.bits)
		return fmt.Sprintf("%s(%d)", t.name, int64(p<<sh)>>sh)
	}
	if t.bits == 32 {
		return fmt.Sprintf("float32(%g, bits %#08x)", math.Float32frombits(uint32(p)), p)
	}
	return fmt.Sprintf("float64(%g, bits %#016x)", math.Float64frombits(p), p)
}

type checker struct {
	t  *typ
	st *hist.Stats
}

// one checks length and round trip of the value at order index k and returns its encoding.
func (c *checker) one(k uint64) ([]byte, *hist.Violation) {
	p := c.t.ord(k)
	var e []byte
	var d uint64
	pan := safely(func() { e = c.t.enc(p) })
	if pan != "" {
		return nil, viol("encode "+c.t.show(p), "returns", "panic: "+pan)
	}
	c.st.Evaluations++
	if len(e) != c.t.width {
		return nil, viol("encoding length of "+c.t.show(p), fmt.Sprint(c.t.width), fmt.Sprintf("%d (%x)", len(e), e))
	}
	pan = safely(func() { d = c.t.dec(e) })
	if pan != "" {
		return nil, viol("decode(encode("+c.t.show(p)+"))", "returns", "panic: "+pan)
	}
	if d != p {
		return nil, viol("decode(encode(x)) for x = "+c.t.show(p)+" (encoding "+fmt.Sprintf("%x", e)+")", c.t.show(p), c.t.show(d))
	}
	// encodings are values of their own: a caller that appends the next field to one (tuple keys are built that
	// way) must not change what any later call returns
	if k%16 == 0 || c.t.width == 1 {
		q := c.t.ord(k + 1)
		var before, after, again []byte
		if safely(func() { before = append([]byte(nil), c.t.enc(q)...) }) == "" {
			keep := append([]byte(nil), e...)
			grown := append(e, 0xa5, 0x5a)
			_ = grown
			pan = safely(func() { after = c.t.enc(q); again = c.t.enc(p) })
			c.st.Evaluations++
			if pan == "" && !bytes.Equal(before, after) {
				return nil, viol("encode "+c.t.show(q)+" after a caller appended two bytes to the slice returned for "+c.t.show(p), fmt.Sprintf("%x", before), fmt.Sprintf("%x", after))
			}
			if pan == "" && !bytes.Equal(keep, again) {
				return nil, viol("encode "+c.t.show(p)+" again after a caller appended two bytes to the slice returned before", fmt.Sprintf("%x", keep), fmt.Sprintf("%x", again))
			}
			e = keep
		}
	}
	return e, nil
}

func (c *checker) less(k1 uint64, e1 []byte, k2 uint64, e2 []byte) *hist.Violation {
	c.st.Nontrivial++
	if bytes.Compare(e1, e2) >= 0 {
		return viol(fmt.Sprintf("order of encodings: %s < %s in the type's total order", c.t.show(c.t.ord(k1)), c.t.show(c.t.ord(k2))),
			fmt.Sprintf("encode(x) < encode(y) bytewise"), fmt.Sprintf("%x >= %x", e1, e2))
	}
	return nil
}

// chain checks the contiguous index range [a,b) as a strictly increasing chain (plus its predecessor).
func (c *checker) chain(a, b uint64, deadline time.Time) (*hist.Violation, bool) {
	var prev []byte
	havePrev := false
	if a > 0 {
		e, v := c.one(a - 1)
		if v != nil {
			return v, true
		}
		prev, havePrev = e, true
	}
	for k := a; k < b; k++ {
		e, v := c.one(k)
		if v != nil {
			return v, true
		}
		if havePrev {
			if v := c.less(k-1, prev, k, e); v != nil {
				return v, true
			}
		}
		prev, havePrev = e, true
		if k&0xfffff == 0 && !deadline.IsZero() && time.Now().After(deadline) {
			return nil, false
		}
	}
	return nil, true
}

func viol(what, exp, obs string) *hist.Violation {
	return &hist.Violation{What: what, Expected: exp, Observed: obs}
}

func safely(f func()) (p string) {
	defer func() {
		if r := recover(); r != nil {
			p = fmt.Sprint(r)
		}
	}()
	f()
	return ""
}

// nanPatterns enumerates NaN bit patterns: all of them for float32, a structured family for float64.
func nanPatterns(t *typ, f func(p uint64) *hist.Violation) *hist.Violation {
	mant := t.posInf() ^ (t.sign() - 1) // mantissa mask
	if t.bits == 32 {
		for s := uint64(0); s < 2; s++ {
			for m := uint64(1); m <= mant; m++ {
				if v := f(s*t.sign() | t.posInf() | m); v != nil {
					return v
				}
			}
		}
		return nil
	}
	mb := 52
	var ms []uint64
	for i := 0; i < mb; i++ {
		ms = append(ms, 1<<uint(i))
		for j := i + 1; j < mb; j++ {
			ms = append(ms, 1<<uint(i)|1<<uint(j))
		}
	}
	ms = append(ms, mant, mant-1, mant>>1, 0x0000555555555555, 0x000aaaaaaaaaaaaa)
	for lo := uint64(1); lo < 1<<16; lo++ {
		ms = append(ms, lo, lo<<36)
	}
	for s := uint64(0); s < 2; s++ {
		for _, m := range ms {
			if v := f(s*t.sign() | t.posInf() | (m & mant)); v != nil {
				return v
			}
		}
	}
	return nil
}

func (c *checker) nans() *hist.Violation {
	t := c.t
	mant := t.posInf() ^ (t.sign() - 1)
	canon := t.enc(t.posInf() | (mant+1)>>1) // quiet NaN
	negInf, v := c.one(0)
	if v != nil {
		return v
	}
	return nanPatterns(t, func(p uint64) *hist.Violation {
		var e []byte
		var d uint64
		if pan := safely(func() { e = t.enc(p); d = t.dec(e) }); pan != "" {
			return viol("encode/decode NaN "+t.show(p), "returns", "panic: "+pan)
		}
		c.st.Evaluations++
		c.st.Nontrivial++
		if len(e) != t.width {
			return viol("encoding length of NaN "+t.show(p), fmt.Sprint(t.width), fmt.Sprint(len(e)))
		}
		if !bytes.Equal(e, canon) {
			return viol("all NaNs encode alike: "+t.show(p), fmt.Sprintf("%x", canon), fmt.Sprintf("%x", e))
		}
		if bytes.Compare(e, negInf) >= 0 {
			return viol("NaN orders below -Inf: "+t.show(p), fmt.Sprintf("< %x", negInf), fmt.Sprintf("%x", e))
		}
		if !t.isNaN(d) {
			return viol("decode(encode(NaN)) for "+t.show(p), "NaN", t.show(d))
		}
		return nil
	})
}

var mids = []uint64{0, 1, 0x7fffffff, 0x80000000, 0xfffffffe, 0xffffffff}

func los(tier string) []uint64 {
	var out []uint64
	seen := map[uint64]bool{}
	add := func(v uint64) {
		v &= 0xffff
		if !seen[v] {
			seen[v] = true
			out = append(out, v)
		}
	}
	for _, v := range []uint64{0, 1, 2, 3, 0x7f, 0x80, 0xff, 0x100, 0x101, 0x7fff, 0x8000, 0x8001, 0xfffc, 0xfffd, 0xfffe, 0xffff} {
		add(v)
	}
	if tier == "thorough" {
		for i := uint64(0); i < 16; i++ {
			for d := uint64(0); d < 32; d++ {
				add(i<<12 + d)
				add(i<<12 - d)
			}
		}
	}
	// ascending
	for i := 1; i < len(out); i++ {
		for j := i; j > 0 && out[j] < out[j-1]; j-- {
			out[j], out[j-1] = out[j-1], out[j]
		}
	}
	return out
}

// lattice checks the structured sub-lattice of a 64-bit type for hi16 in [hiA,hiB).
func (c *checker) lattice(hiA, hiB uint64, tier string, deadline time.Time) (*hist.Violation, bool) {
	n, bounded := c.t.count()
	lo := los(tier)
	var prev []byte
	var prevK uint64
	havePrev := false
	for hi := hiA; hi < hiB; hi++ {
		for _, mid := range mids {
			for _, l := range lo {
				k := hi<<48 | mid<<16 | l
				if bounded && k >= n {
					continue
				}
				e, v := c.one(k)
				if v != nil {
					return v, true
				}
				if havePrev {
					if v := c.less(prevK, prev, k, e); v != nil {
						return v, true
					}
				}
				// immediate neighbours in the total order
				if k > 0 && !(havePrev && prevK == k-1) {
					ep, v := c.one(k - 1)
					if v != nil {
						return v, true
					}
					if v := c.less(k-1, ep, k, e); v != nil {
						return v, true
					}
				}
				if k+1 != 0 && (!bounded || k+1 < n) {
					en, v := c.one(k + 1)
					if v != nil {
						return v, true
					}
					if v := c.less(k, e, k+1, en); v != nil {
						return v, true
					}
				}
				prev, prevK, havePrev = e, k, true
			}
		}
		if !deadline.IsZero() && time.Now().After(deadline) {
			return nil, false
		}
	}
	return nil, true
}

// Jobs lists the codec jobs of a tier (names are self-describing).
func Jobs(tier string) []string {
	var out []string
	shards := 16
	for _, t := range types() {
		switch {
		case t.bits <= 16:
			out = append(out, "codec/"+t.name+"/full/0/1")
		case t.bits == 32:
			if tier == "thorough" {
				for s := 0; s < shards; s++ {
					out = append(out, fmt.Sprintf("codec/%s/full/%d/%d", t.name, s, shards))
				}
			} else {
				out = append(out, "codec/"+t.name+"/windows/0/1")
			}
		default:
			for s := 0; s < shards; s++ {
				out = append(out, fmt.Sprintf("codec/%s/lattice/%d/%d", t.name, s, shards))
			}
		}
		if t.kind == kFloat {
			out = append(out, "codec/"+t.name+"/nan/0/1")
		}
	}
	return out
}

// Run executes one codec job.
func Run(name, tier string, deadline time.Duration) *hist.Result {
	start := time.Now()
	res := &hist.Result{Universe: name, Property: "C07"}
	st := &res.Stats
	st.Exhaustive = true
	defer func() { st.WallS = time.Since(start).Seconds() }()
	parts := strings.Split(name, "/")
	if len(parts) != 5 {
		res.HarnessErr = "bad codec job " + name
		return res
	}
	var t *typ
	for _, x := range types() {
		if x.name == parts[1] {
			x := x
			t = &x
		}
	}
	if t == nil {
		res.HarnessErr = "unknown type " + parts[1]
		return res
	}
	shard, _ := strconv.Atoi(parts[3])
	shards, _ := strconv.Atoi(parts[4])
	c := &checker{t: t, st: st}
	var dl time.Time
	if deadline > 0 {
		dl = start.Add(deadline)
	}
	var v *hist.Violation
	done := true
	switch parts[2] {
	case "full":
		n, _ := t.count()
		a, b := n/uint64(shards)*uint64(shard), n/uint64(shards)*uint64(shard+1)
		if shard == shards-1 {
			b = n
		}
		v, done = c.chain(a, b, dl)
		st.Samples = append(st.Samples, fmt.Sprintf("%s: order indexes [%d,%d) of %d as one strictly increasing chain, e.g. %s then %s", t.name, a, b, n, t.show(t.ord(a)), t.show(t.ord(a+1))))
	case "windows":
		n, _ := t.count()
		centers := []uint64{0, n - 1, n / 2, n / 4, 3 * (n / 4), 1 << 16, 1 << 24, n/2 + 1<<23, n/2 - 1<<23, n/2 + 1<<24, n / 8, 7 * (n / 8), 1 << 31, 1<<31 - 1<<23, 1 << 8, n - 1<<24}
		const w = 1 << 19
		for _, ctr := range centers {
			a := uint64(0)
			if ctr > w {
				a = ctr - w
			}
			b := ctr + w
			if b > n {
				b = n
			}
			if a >= b {
				continue
			}
			v, done = c.chain(a, b, dl)
			if v != nil || !done {
				break
			}
		}
		st.Samples = append(st.Samples, fmt.Sprintf("%s: 16 windows of 2^20 consecutive values of the total order around type/sign/exponent boundaries, e.g. %s", t.name, t.show(t.ord(n/2))))
	case "lattice":
		per := uint64(65536 / shards)
		v, done = c.lattice(per*uint64(shard), per*uint64(shard+1), tier, dl)
		st.Samples = append(st.Samples, fmt.Sprintf("%s: order indexes hi16 in [%#x,%#x) x mid32 in %x x lo16 in %d boundary values, each with its +-1 neighbours, e.g. %s", t.name, per*uint64(shard), per*uint64(shard+1), mids, len(los(tier)), t.show(t.ord(per*uint64(shard)<<48|1<<16))))
	case "nan":
		v = c.nans()
		st.Samples = append(st.Samples, t.name+": NaN bit patterns (all 2*(2^23-1) for float32; single/double mantissa bits, low/high 16-bit sweeps, both signs for float64)")
	default:
		res.HarnessErr = "bad mode " + parts[2]
		return res
	}
	if !done {
		st.Exhaustive = false
		st.CapHit = "deadline " + deadline.String()
	}
	if v != nil {
		v.Property, v.Universe, v.Tier = "C07", name, tier
		// re-run the same job once more to make sure the failure is deterministic
		res.Violations = append(res.Violations, v)
		st.Exhaustive = false
	}
	return res
}
