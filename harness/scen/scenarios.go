package scen

import (
	"fmt"
	"math"

	art "github.com/Clement-Jean/go-art"

	"verif/hist"
)

// Instance is one fresh copy of a scenario: trees built sequentially before any
// goroutine starts, thread bodies, and a post-run inspection.
type Instance struct {
	Bodies []func()
	// Obs returns, per thread, what that thread observed.
	Obs func() [][]string
	// Post inspects the final state (structure of every tree, unchanged shared tree); "" = fine.
	Post func() string
}

type Scenario struct {
	Name    string
	Threads int
	New     func() *Instance
	Desc    string
}

// step is one call a goroutine makes.
type step struct {
	kind string // insert delete search min max size all-stop range prefix all backward topk
	k, b int
	n    int
}

type threadSpec struct {
	u     *hist.Universe
	steps []step
	tree  int // index of the tree this thread works on (shared readers: same index)
	// prologue: executed sequentially while the instance is built (before any goroutine starts),
	// on a tree of its own; used to leave released nodes in the pool
	prologue bool
}

func safely(f func()) (p string) {
	defer func() {
		if r := recover(); r != nil {
			p = fmt.Sprint(r)
		}
	}()
	f()
	return ""
}

func doStep(u *hist.Universe, d hist.Driver, s step) string {
	switch s.kind {
	case "insert":
		d.Insert(s.k, s.n)
		return fmt.Sprintf("Insert(%s)", u.KeyStr[s.k])
	case "delete":
		return fmt.Sprintf("Delete(%s)=%v", u.KeyStr[s.k], d.Delete(s.k))
	case "search":
		v, ok := d.Search(s.k)
		return fmt.Sprintf("Search(%s)=%d,%v", u.KeyStr[s.k], v, ok)
	case "min":
		p, ok := d.Min()
		return fmt.Sprintf("Minimum()=%v,%v", p, ok)
	case "max":
		p, ok := d.Max()
		return fmt.Sprintf("Maximum()=%v,%v", p, ok)
	case "size":
		return fmt.Sprintf("Size()=%d", d.Size())
	case "all":
		return fmt.Sprintf("All()=%v", hist.Collect(d.Seq(hist.Query{Kind: hist.SeqAll})))
	case "backward":
		return fmt.Sprintf("Backward()=%v", hist.Collect(d.Seq(hist.Query{Kind: hist.SeqBackward})))
	case "all-stop":
		var got []hist.Pair
		d.Seq(hist.Query{Kind: hist.SeqAll})(func(p hist.Pair) bool { got = append(got, p); return len(got) < s.n })
		return fmt.Sprintf("All()[:%d]=%v", s.n, got)
	case "range":
		return fmt.Sprintf("Range(%s,%s)=%v", u.KeyStr[s.k], u.KeyStr[s.b], hist.Collect(d.Seq(hist.Query{Kind: hist.SeqRange, A: s.k, B: s.b})))
	case "prefix":
		return fmt.Sprintf("Prefix(%s)=%v", u.KeyStr[s.k], hist.Collect(d.Seq(hist.Query{Kind: hist.SeqPrefix, A: s.k})))
	case "topk":
		return fmt.Sprintf("TopK(%d)=%v", s.n, hist.Collect(d.Seq(hist.Query{Kind: hist.SeqTopK, N: uint(s.n)})))
	case "bottomk":
		return fmt.Sprintf("BottomK(%d)=%v", s.n, hist.Collect(d.Seq(hist.Query{Kind: hist.SeqBottomK, N: uint(s.n)})))
	}
	panic("bad step " + s.kind)
}

// build makes a scenario from thread specs. Threads with the same tree index share one tree (read-only mixes).
func build(name, desc string, nTrees int, threads []threadSpec) *Scenario {
	nThreads := 0
	for _, t := range threads {
		if !t.prologue {
			nThreads++
		}
	}
	return &Scenario{Name: name, Threads: nThreads, Desc: desc, New: func() *Instance {
		drv := make([]hist.Driver, nTrees)
		ref := make([]*hist.Ref, nTrees)
		uni := make([]*hist.Universe, nTrees)
		mutated := make([]bool, nTrees)
		var bodies []threadSpec
		for _, t := range threads {
			if t.prologue {
				d := t.u.New()
				for _, op := range t.u.Setup {
					if op.Kind == hist.OpInsert {
						d.Insert(op.K, op.V)
					} else {
						d.Delete(op.K)
					}
				}
				for _, s := range t.steps {
					doStep(t.u, d, s)
				}
				continue
			}
			bodies = append(bodies, t)
		}
		threads := bodies
		for _, t := range threads {
			if drv[t.tree] == nil {
				d := t.u.New()
				r := hist.NewRef(t.u)
				for _, op := range t.u.Setup {
					if op.Kind == hist.OpInsert {
						d.Insert(op.K, op.V)
					} else {
						d.Delete(op.K)
					}
					r.Apply(op)
				}
				drv[t.tree], ref[t.tree], uni[t.tree] = d, r, t.u
			}
			for _, s := range t.steps {
				if s.kind == "insert" || s.kind == "delete" {
					mutated[t.tree] = true
				}
			}
		}
		// raw images of trees that are only read
		before := make([][]byte, nTrees)
		for i := range drv {
			if !mutated[i] {
				before[i] = hist.Serialize(nil, drv[i].Dump(), hist.KeyRaw, nil)
			}
		}
		obs := make([][]string, len(threads))
		inst := &Instance{}
		for ti, t := range threads {
			ti, t := ti, t
			inst.Bodies = append(inst.Bodies, func() {
				d := drv[t.tree]
				for _, s := range t.steps {
					obs[ti] = append(obs[ti], doStep(t.u, d, s))
					if s.kind == "insert" {
						ref[t.tree].Insert(s.k, s.n)
					} else if s.kind == "delete" {
						ref[t.tree].Delete(s.k)
					}
				}
			})
		}
		inst.Obs = func() [][]string { return obs }
		inst.Post = func() string {
			for i := range drv {
				var msg string
				if p := safely(func() {
					dump := drv[i].Dump()
					if !mutated[i] {
						after := hist.Serialize(nil, dump, hist.KeyRaw, nil)
						if string(after) != string(before[i]) {
							msg = fmt.Sprintf("shared tree %d (%s) changed although only queried: %s", i+1, uni[i].Name, hist.DumpString(dump))
							return
						}
					}
					if err := hist.CheckStructure(uni[i], dump, ref[i], drv[i].Size()); err != nil {
						msg = fmt.Sprintf("tree %d (%s): %v | %s", i+1, uni[i].Name, err, hist.DumpString(dump))
						return
					}
					got := hist.Collect(drv[i].Seq(hist.Query{Kind: hist.SeqAll}))
					if exp := ref[i].Sorted(); !hist.PairsEqual(got, exp) && !(len(got) == 0 && len(exp) == 0) {
						msg = fmt.Sprintf("tree %d (%s): All() = %s, expected %s", i+1, uni[i].Name, hist.PairsString(uni[i], got), hist.PairsString(uni[i], exp))
					}
				}); p != "" {
					return fmt.Sprintf("tree %d (%s): panic while inspecting the final state: %s", i+1, uni[i].Name, p)
				}
				if msg != "" {
					return msg
				}
			}
			return ""
		}
		return inst
	}}
}

func alphaU(name string, f hist.FanSpec) *hist.Universe {
	f.Name = name
	return hist.NewAlphaUniverse(hist.FanUniverse(f), "string")
}

// Scenarios lists the C16 scenarios of a tier. Quick scenarios are kept to a few hundred
// statement-level points so that all schedules with <= 2 preemptions can be enumerated.
func Scenarios(tier string) []*Scenario {
	var out []*Scenario
	th := tier == "thorough"
	f := func(u *hist.Universe, i int) int { return u.Free[i] }
	P := func(n int) string {
		s := ""
		for i := 0; i < n; i++ {
			s += "p"
		}
		return s
	}
	// --- A: private trees, every goroutine causes pool traffic ---
	// both goroutines overflow a 4-slot node at the same time (4 -> 16)
	g1 := hist.ProductTreeU16("S-N4@4a", hist.FanSpec{Hold: 4, Present: 1, Absent: 2})
	g2 := hist.ProductTreeU8("S-N4@4b", hist.FanSpec{Hold: 4, Present: 1, Absent: 2, Order: 1})
	tG1 := threadSpec{u: g1, tree: 0, steps: []step{{kind: "insert", k: f(g1, 1), n: 2}, {kind: "search", k: f(g1, 1)}, {kind: "delete", k: f(g1, 0)}}}
	tG2 := threadSpec{u: g2, tree: 1, steps: []step{{kind: "insert", k: f(g2, 1), n: 3}, {kind: "search", k: f(g2, 0)}, {kind: "delete", k: f(g2, 1)}}}
	out = append(out, build("private-2/n4up-n4up", "two goroutines, private trees, both grow a 4-slot node into a 16-slot node (and one shrinks back)", 2, []threadSpec{tG1, tG2}))
	// node16 -> node48 in one tree while the other releases a node48 (48 -> 16)
	a1 := alphaU("S-N48@13", hist.FanSpec{Hold: 13, Extra: 4, Present: 2, Absent: 1})
	a2 := hist.ProductTreeU16("S-N16@16", hist.FanSpec{Hold: 16, Present: 1, Absent: 2})
	tA1 := threadSpec{u: a1, tree: 0, steps: []step{{kind: "delete", k: f(a1, 0)}, {kind: "insert", k: f(a1, 0), n: 2}, {kind: "search", k: f(a1, 1)}}}
	tA2 := threadSpec{u: a2, tree: 1, steps: []step{{kind: "insert", k: f(a2, 1), n: 3}, {kind: "delete", k: f(a2, 1)}, {kind: "search", k: f(a2, 0)}}}
	out = append(out, build("private-2/n48-n16", "two goroutines, private trees: node48 released and re-acquired by one, node16->node48 grow by the other", 2, []threadSpec{tA1, tA2}))
	// both goroutines acquire the same size class at the same moment while the pool holds a released node of that class
	pro48 := hist.ProductTreeU8("S-PRO48", hist.FanSpec{Hold: 13, Extra: 4, Present: 1, Absent: 1})
	tPro48 := threadSpec{u: pro48, prologue: true, steps: []step{{kind: "delete", k: f(pro48, 0)}}}
	h1 := hist.ProductTreeU16("S-N16@16a", hist.FanSpec{Hold: 16, Present: 1, Absent: 2})
	h2 := hist.ProductTreeU8("S-N16@16b", hist.FanSpec{Hold: 16, Present: 1, Absent: 2, Order: 1})
	tH1 := threadSpec{u: h1, tree: 0, steps: []step{{kind: "insert", k: f(h1, 1), n: 2}, {kind: "search", k: f(h1, 0)}}}
	tH2 := threadSpec{u: h2, tree: 1, steps: []step{{kind: "insert", k: f(h2, 1), n: 3}, {kind: "search", k: f(h2, 0)}}}
	out = append(out, build("private-2/n16up-n16up-prefilled", "two goroutines, private trees, both grow a 16-slot node into a 48-slot node while the pool holds a released 48-slot node", 2, []threadSpec{tPro48, tH1, tH2}))
	pro256 := hist.ProductTreeU8("S-PRO256", hist.FanSpec{Hold: 38, Extra: 11, Present: 1, Absent: 1})
	tPro256 := threadSpec{u: pro256, prologue: true, steps: []step{{kind: "delete", k: f(pro256, 0)}}}
	w1 := hist.ProductTreeU16("S-N48@48a", hist.FanSpec{Hold: 48, Present: 1, Absent: 2})
	w2 := hist.ProductTreeU8("S-N48@48b", hist.FanSpec{Hold: 48, Present: 1, Absent: 2, Order: 1})
	tW1 := threadSpec{u: w1, tree: 0, steps: []step{{kind: "insert", k: f(w1, 1), n: 2}, {kind: "search", k: f(w1, 0)}}}
	tW2 := threadSpec{u: w2, tree: 1, steps: []step{{kind: "insert", k: f(w2, 1), n: 3}, {kind: "search", k: f(w2, 0)}}}
	out = append(out, build("private-2/n48up-n48up-prefilled", "two goroutines, private trees, both grow a 48-slot node into a 256-slot node while the pool holds a released 256-slot node", 2, []threadSpec{tPro256, tW1, tW2}))
	// both goroutines run a bounded range scan (each on its own tree of a different kind) after an earlier scan
	// on a third tree stopped at its upper bound: anything a scan takes from / returns to shared state is in play
	rp := hist.ProductTreeU16("S-RANGEPRO", hist.FanSpec{Hold: 6, Present: 2, Absent: 1})
	tRP := threadSpec{u: rp, prologue: true, steps: []step{{kind: "range", k: rp.Bounds[0], b: rp.Bounds[1]}, {kind: "range", k: rp.Bounds[1], b: rp.Bounds[2]}}}
	ra := hist.ProductTreeU16("S-RANGEa", hist.FanSpec{Hold: 6, Present: 2, Absent: 1})
	rb := hist.SharedCompound()
	tRA := threadSpec{u: ra, tree: 0, steps: []step{{kind: "range", k: ra.Bounds[0], b: ra.Bounds[len(ra.Bounds)-1]}, {kind: "range", k: ra.Bounds[1], b: ra.Bounds[2]}}}
	tRB := threadSpec{u: rb, tree: 1, steps: []step{{kind: "range", k: rb.Free[0], b: rb.Free[2]}, {kind: "range", k: rb.Free[3], b: rb.Free[1]}}}
	out = append(out, build("private-2/range-range", "two goroutines, private trees of different kinds, both run bounded range scans after an earlier scan stopped at its upper bound", 2, []threadSpec{tRP, tRA, tRB}))
	// two default collation trees (anything the constructor shares between trees, e.g. a collator, is in play;
	// the collator's internals are outside the instrumented package, so this one is mainly for the free-running race pass)
	co1 := hist.NewCollUniverse(hist.CollSpec{Name: "S-COLLa", Free: []string{"a", "A", "ab", "résumé"}}, hist.Collators()[0], "string", false)
	co2 := hist.NewCollUniverse(hist.CollSpec{Name: "S-COLLb", Free: []string{"b", "B", "日本", "ba"}}, hist.Collators()[0], "string", false)
	tC1 := threadSpec{u: co1, tree: 0, steps: []step{{kind: "insert", k: f(co1, 0), n: 1}, {kind: "insert", k: f(co1, 1), n: 2}, {kind: "insert", k: f(co1, 3), n: 3}, {kind: "search", k: f(co1, 1)}, {kind: "all"}}}
	tC2 := threadSpec{u: co2, tree: 1, steps: []step{{kind: "insert", k: f(co2, 0), n: 1}, {kind: "insert", k: f(co2, 2), n: 2}, {kind: "insert", k: f(co2, 1), n: 3}, {kind: "search", k: f(co2, 2)}, {kind: "all"}}}
	out = append(out, build("private-2/collation-collation", "two goroutines, each with its own default-collator collation tree", 2, []threadSpec{tC1, tC2}))
	// path split / merge (node4 taken and released) against node4 -> node16 -> node4
	s1 := hist.NewAlphaUniverse(hist.AlphaSpec{Name: "S-SPLIT", Setup: []string{"abc1", "abc2", "abd"}, Free: []string{"abX", "abc1"}, NoAutoP: true}, "string")
	s2 := hist.ProductTreeU16("S-N4@4", hist.FanSpec{Hold: 4, Present: 2, Absent: 2})
	tS1 := threadSpec{u: s1, tree: 0, steps: []step{{kind: "insert", k: f(s1, 0), n: 5}, {kind: "delete", k: f(s1, 1)}, {kind: "delete", k: f(s1, 0)}}}
	tS2 := threadSpec{u: s2, tree: 1, steps: []step{{kind: "insert", k: f(s2, 2), n: 6}, {kind: "delete", k: f(s2, 0)}, {kind: "delete", k: f(s2, 1)}}}
	out = append(out, build("private-2/n4-split-merge", "two goroutines, private trees: path split / merge and node4->node16->node4", 2, []threadSpec{tS1, tS2}))
	// one goroutine releases a 256-way node (256 -> 48 shrink) while the other acquires one (48 -> 256 grow)
	{
		d3 := hist.ProductTreeU8("S-N256@38q", hist.FanSpec{Hold: 38, Extra: 11, Present: 2, Absent: 2})
		g3 := hist.ProductTreeU16("S-N48@48q", hist.FanSpec{Hold: 48, Present: 1, Absent: 2})
		tD3 := threadSpec{u: d3, tree: 0, steps: []step{{kind: "delete", k: f(d3, 0)}, {kind: "search", k: f(d3, 1)}}}
		tU3 := threadSpec{u: g3, tree: 1, steps: []step{{kind: "insert", k: f(g3, 1), n: 4}, {kind: "search", k: f(g3, 0)}}}
		out = append(out, build("private-2/n256down-n48up", "two goroutines, private trees: one shrinks a 256-way node (released to the pool), the other grows a 48-way node into a 256-way one", 2, []threadSpec{tD3, tU3}))
	}
	if th {
		a3 := hist.ProductTreeU8("S-N256@38", hist.FanSpec{Hold: 38, Extra: 11, Present: 2, Absent: 2})
		tA3 := threadSpec{u: a3, tree: 2, steps: []step{{kind: "delete", k: f(a3, 0)}, {kind: "insert", k: f(a3, 2), n: 4}}}
		tA3b := tA3
		tA3b.tree = 1
		out = append(out, build("private-2/n48-n256", "two goroutines, private trees: node48 shrink/grow and node256 shrink + node48 acquire", 2, []threadSpec{tA1, tA3b}))
		tG3 := threadSpec{u: s2, tree: 2, steps: []step{{kind: "insert", k: f(s2, 2), n: 6}, {kind: "delete", k: f(s2, 2)}}}
		out = append(out, build("private-3/n4up-n4up-n4up", "three goroutines, private trees, all grow a 4-slot node", 3, []threadSpec{tG1, tG2, tG3}))
	}
	// --- B: read-only query mixes on one shared quiescent tree ---
	shared := hist.NewAlphaUniverse(hist.AlphaSpec{Name: "S-SHARED", Setup: []string{P(12) + "x", P(12) + "y", P(11) + "z", "a", "ab", "k1", "k2", "k3", "k4", "k5"},
		Free: []string{"a", P(12) + "x", "k3"}, Probes: []string{P(12), "zz"}, Prefixes: []string{"k", P(12)}, NoAutoP: true}, "string")
	ka, kx, k3 := shared.Free[0], shared.Free[1], shared.Free[2]
	absent := shared.DelExtra[0]
	r1 := threadSpec{u: shared, tree: 0, steps: []step{{kind: "search", k: kx}, {kind: "search", k: absent}, {kind: "min"}, {kind: "all-stop", n: 2}}}
	r2 := threadSpec{u: shared, tree: 0, steps: []step{{kind: "search", k: k3}, {kind: "prefix", k: shared.Prefixes[1]}, {kind: "max"}, {kind: "search", k: ka}}}
	out = append(out, build("readers-2/alpha", "two goroutines querying one quiescent byte-string tree (node4, node16, long path)", 1, []threadSpec{r1, r2}))
	// long lookup keys (per-tree scratch buffers tend to be used only above some key length)
	long := hist.NewAlphaUniverse(hist.AlphaSpec{Name: "S-LONGKEYS", Setup: []string{P(40) + "a", P(40) + "b", P(70) + "c", "q" + P(33), "r" + P(65)},
		Free: []string{P(40) + "a", P(70) + "c", "q" + P(33), "r" + P(65)}, Probes: []string{P(40) + "z"}, NoAutoP: true}, "string")
	l1 := threadSpec{u: long, tree: 0, steps: []step{{kind: "search", k: long.Free[0]}, {kind: "search", k: long.Free[2]}, {kind: "search", k: long.DelExtra[0]}}}
	l2 := threadSpec{u: long, tree: 0, steps: []step{{kind: "search", k: long.Free[1]}, {kind: "search", k: long.Free[3]}, {kind: "min"}}}
	out = append(out, build("readers-2/alpha-longkeys", "two goroutines searching one quiescent byte-string tree with 34..71-byte keys", 1, []threadSpec{l1, l2}))
	// a 256-way node on the leftmost path whose lowest children were deleted before the readers start
	wide := hist.WideLowDeleted()
	wm := threadSpec{u: wide, tree: 0, steps: []step{{kind: "min"}, {kind: "search", k: wide.Free[0]}, {kind: "max"}}}
	wn := threadSpec{u: wide, tree: 0, steps: []step{{kind: "min"}, {kind: "max"}, {kind: "search", k: wide.Free[1]}}}
	out = append(out, build("readers-2/uint8-wide", "two goroutines asking one quiescent 256-way tree for its extremes", 1, []threadSpec{wm, wn}))
	// complete traversals of the 256-way tree by both goroutines (the traversal stack takes all children of the wide node at once)
	wfull := hist.WideFull()
	wi := threadSpec{u: wfull, tree: 0, steps: []step{{kind: "all"}, {kind: "topk", n: 2}}}
	wj := threadSpec{u: wfull, tree: 0, steps: []step{{kind: "backward"}, {kind: "all-stop", n: 3}}}
	out = append(out, build("readers-2/uint8-wide-iterate", "two goroutines iterating one quiescent 256-way tree forwards and backwards", 1, []threadSpec{wi, wj}))
	u64 := hist.SharedU64()
	n1 := threadSpec{u: u64, tree: 0, steps: []step{{kind: "search", k: u64.Free[0]}, {kind: "range", k: u64.Free[0], b: u64.Free[1]}, {kind: "min"}}}
	n2 := threadSpec{u: u64, tree: 0, steps: []step{{kind: "max"}, {kind: "search", k: u64.DelExtra[0]}, {kind: "topk", n: 1}, {kind: "search", k: u64.Free[1]}}}
	out = append(out, build("readers-2/uint64", "two goroutines querying one quiescent numeric tree", 1, []threadSpec{n1, n2}))
	cu := hist.SharedCompound()
	c1 := threadSpec{u: cu, tree: 0, steps: []step{{kind: "search", k: cu.Free[0]}, {kind: "range", k: cu.Free[0], b: cu.Free[2]}, {kind: "all-stop", n: 2}}}
	c2 := threadSpec{u: cu, tree: 0, steps: []step{{kind: "max"}, {kind: "search", k: cu.DelExtra[0]}, {kind: "backward"}}}
	out = append(out, build("readers-2/compound", "two goroutines querying one quiescent compound tree (16-byte shared path)", 1, []threadSpec{c1, c2}))
	// every kind of read-only call, by both goroutines, none of them made before on this tree (anything a query
	// memoises on first use is written by both); open-ended ranges included (the empty key as a bound)
	every := hist.NewAlphaUniverse(hist.AlphaSpec{Name: "S-EVERY", Setup: []string{P(12) + "x", P(12) + "y", "a", "ab", "k1"},
		Free: []string{"a", P(12) + "x", "k1"}, Probes: []string{"", "zz"}, Prefixes: []string{P(12)}, NoAutoP: true}, "string")
	eIdx := func(k string) int {
		for i, s := range every.KeyStr {
			if s == fmt.Sprintf("%q", k) {
				return i
			}
		}
		panic("no key " + k)
	}
	eEmpty, eA, eX, eK, eZ := eIdx(""), eIdx("a"), eIdx(P(12)+"x"), eIdx("k1"), eIdx("zz")
	bundle := []step{{kind: "range", k: eA, b: eEmpty}, {kind: "range", k: eEmpty, b: eK}, {kind: "range", k: eA, b: eX}, {kind: "search", k: eX}, {kind: "search", k: eZ},
		{kind: "min"}, {kind: "max"}, {kind: "size"}, {kind: "prefix", k: every.Prefixes[0]}, {kind: "topk", n: 1}, {kind: "bottomk", n: 1}, {kind: "all-stop", n: 2}, {kind: "backward"}}
	rev := make([]step, len(bundle))
	for i, st := range bundle {
		rev[len(bundle)-1-i] = st
	}
	out = append(out, build("readers-2/alpha-every-query", "two goroutines, each making every kind of read-only call (incl. open-ended ranges) on one quiescent byte-string tree, in opposite orders", 1,
		[]threadSpec{{u: every, tree: 0, steps: bundle}, {u: every, tree: 0, steps: rev}}))
	out = append(out, build("readers-2/alpha-every-query-same-order", "the same, both goroutines in the same order", 1,
		[]threadSpec{{u: every, tree: 0, steps: bundle}, {u: every, tree: 0, steps: bundle}}))
	if th {
		r3 := threadSpec{u: shared, tree: 0, steps: []step{{kind: "backward"}, {kind: "search", k: kx}, {kind: "prefix", k: shared.Prefixes[2]}}}
		out = append(out, build("readers-3/alpha", "three goroutines querying one quiescent byte-string tree", 1, []threadSpec{r1, r2, r3}))
	}
	return out
}

func fanKeys(prefix string, n int) []string {
	var out []string
	for i := 0; i < n; i++ {
		out = append(out, prefix+string([]byte{byte(i*12 + 3)}))
	}
	return out
}

// GCScenarios: one goroutine, representative histories; the collector may run at any statement (C18).
func GCScenarios(tier string) []*Scenario {
	var out []*Scenario
	mk := func(name string, u *hist.Universe, steps []step) {
		out = append(out, build("gc/"+name, "forced collection at any statement boundary inside: "+name, 1, []threadSpec{{u: u, tree: 0, steps: steps}}))
	}
	for _, u := range hist.GCUniverses() {
		var steps []step
		for _, k := range u.Free {
			steps = append(steps, step{kind: "insert", k: k, n: 1})
		}
		steps = append(steps, step{kind: "all"})
		if u.HasRange && len(u.Free) >= 2 {
			steps = append(steps, step{kind: "range", k: u.Free[0], b: u.Free[len(u.Free)-1]})
		}
		for i, k := range u.Free {
			if i%2 == 0 {
				steps = append(steps, step{kind: "delete", k: k})
			}
		}
		steps = append(steps, step{kind: "backward"}, step{kind: "min"})
		for _, k := range u.Free {
			steps = append(steps, step{kind: "search", k: k})
		}
		mk(u.Name, u, steps)
	}
	_ = math.Pi
	_ = art.VerifMaxPrefixLen
	return out
}
