//go:build vsched

// Package sched is engine E4: stateless exploration of goroutine schedules (and
// garbage-collection events) at statement granularity, on a build of the
// library instrumented by cmd/vinstrument through `go build -overlay`.
package sched

import (
	"crypto/sha256"
	"fmt"
	"strings"
	"time"

	"github.com/Clement-Jean/go-art/vsched"

	"verif/hist"
	"verif/scen"
)

type Instance = scen.Instance
type Scenario = scen.Scenario

type outcome struct {
	trace    []vsched.Point
	obs      [][]string
	post     string
	panics   []string
	diverged string
}

func runOnce(sc *Scenario, choices []int, gcAt map[int]bool) *outcome {
	vsched.ResetPools()
	inst := sc.New()
	e := &vsched.Exec{Choices: choices, GCAt: gcAt}
	e.Run(inst.Bodies)
	o := &outcome{trace: e.Trace, panics: e.Panics, diverged: e.Diverged}
	o.obs = inst.Obs()
	if len(o.panics) == 0 {
		o.post = inst.Post()
	}
	return o
}

// reference runs the bodies one after the other without the scheduler.
func reference(sc *Scenario) (*outcome, error) {
	vsched.ResetPools()
	inst := sc.New()
	var pan string
	for i, b := range inst.Bodies {
		func() {
			defer func() {
				if r := recover(); r != nil {
					pan = fmt.Sprintf("thread %d: %v", i, r)
				}
			}()
			b()
		}()
	}
	if pan != "" {
		return nil, fmt.Errorf("sequential reference panics: %s", pan)
	}
	o := &outcome{obs: inst.Obs(), post: inst.Post()}
	if o.post != "" {
		return nil, fmt.Errorf("sequential reference fails its own post-check: %s", o.post)
	}
	return o, nil
}

func obsKey(o *outcome) string {
	h := sha256.New()
	for _, t := range o.obs {
		for _, s := range t {
			h.Write([]byte(s))
			h.Write([]byte{0})
		}
		h.Write([]byte{1})
	}
	h.Write([]byte(o.post))
	for _, p := range o.panics {
		h.Write([]byte(p))
	}
	return fmt.Sprintf("%x", h.Sum(nil)[:8])
}

func chosen(tr []vsched.Point, n int) []int {
	c := make([]int, n)
	for i := 0; i < n; i++ {
		c[i] = tr[i].Chosen
	}
	return c
}

func scheduleString(tr []vsched.Point) string {
	var sb strings.Builder
	for i, p := range tr {
		if p.Chosen != 0 || p.Exit {
			kind := "preempt"
			if p.Exit {
				kind = "exit"
			}
			fmt.Fprintf(&sb, "step %d: %s of T%d -> alternative %d/%d; ", i, kind, p.Running+1, p.Chosen, p.Alts)
		}
	}
	return sb.String()
}

type Explorer struct {
	Sc       *Scenario
	Bound    int
	Shard    int
	Shards   int
	Deadline time.Time
	Stats    *hist.Stats
	ref      *outcome
	outcomes map[string]int
	replayed int
	capped   bool
}

// check compares one execution with the sequential reference.
func (x *Explorer) check(o *outcome) *hist.Violation {
	if o.diverged != "" {
		return &hist.Violation{What: "harness", Expected: "choices replay exactly", Observed: o.diverged, Tags: []string{"harness"}}
	}
	if len(o.panics) > 0 {
		return &hist.Violation{What: "a goroutine panicked under schedule {" + scheduleString(o.trace) + "}", Expected: "every goroutine returns normally", Observed: strings.Join(o.panics, "; ")}
	}
	for t := range x.ref.obs {
		a, b := x.ref.obs[t], o.obs[t]
		for i := 0; i < len(a) || i < len(b); i++ {
			var sa, sb string
			if i < len(a) {
				sa = a[i]
			}
			if i < len(b) {
				sb = b[i]
			}
			if sa != sb {
				return &hist.Violation{What: fmt.Sprintf("observation %d of goroutine %d under schedule {%s}", i, t+1, scheduleString(o.trace)), Expected: "as in a sequential execution: " + sa, Observed: sb}
			}
		}
	}
	if o.post != "" {
		return &hist.Violation{What: "final state under schedule {" + scheduleString(o.trace) + "}", Expected: "every tree well-formed with its own content; shared tree untouched", Observed: o.post}
	}
	return nil
}

// Explore enumerates all schedules with at most Bound preemptions (iterative context bounding).
func (x *Explorer) Explore() (*hist.Violation, []int, error) {
	ref, err := reference(x.Sc)
	if err != nil {
		return nil, nil, err
	}
	x.ref = ref
	x.outcomes = map[string]int{}
	base := runOnce(x.Sc, nil, nil)
	// determinism: the same schedule twice gives the same observations and the same number of points
	again := runOnce(x.Sc, nil, nil)
	if obsKey(base) != obsKey(again) || len(base.trace) != len(again.trace) {
		return nil, nil, fmt.Errorf("nondeterministic execution: %d vs %d points", len(base.trace), len(again.trace))
	}
	if x.Shard == 0 {
		x.Stats.Evaluations++
		x.outcomes[obsKey(base)]++
		if v := x.check(base); v != nil {
			return v, nil, nil
		}
	}
	idx := 0
	v, c := x.branch(base, 0, 0, &idx, true)
	x.Stats.Outcomes = x.outcomes
	return v, c, nil
}

// branch explores the alternatives of every point of execution o at or after position from.
func (x *Explorer) branch(o *outcome, from int, preBefore int, idx *int, top bool) (*hist.Violation, []int) {
	pre := preBefore
	for i := from; i < len(o.trace); i++ {
		p := o.trace[i]
		cost := pre
		if !p.Exit {
			cost++
		}
		if cost <= x.Bound {
			for alt := 1; alt < p.Alts; alt++ {
				if top {
					*idx++
					if x.Shards > 1 && *idx%x.Shards != x.Shard {
						continue
					}
				}
				if !x.Deadline.IsZero() && time.Now().After(x.Deadline) {
					x.capped = true
					return nil, nil
				}
				choices := append(chosen(o.trace, i), alt)
				n := runOnce(x.Sc, choices, nil)
				x.Stats.Evaluations++
				x.Stats.Nontrivial++
				k := obsKey(n)
				x.outcomes[k]++
				if v := x.check(n); v != nil {
					// confirm: replay the same choice list five times
					for r := 0; r < 5; r++ {
						m := runOnce(x.Sc, choices, nil)
						if obsKey(m) != k {
							return &hist.Violation{What: "harness", Tags: []string{"harness"}, Expected: "a schedule replays deterministically", Observed: "different observations on replay of " + fmt.Sprint(choices)}, choices
						}
					}
					return v, choices
				}
				if x.replayed < 100 {
					x.replayed++
					m := runOnce(x.Sc, choices, nil)
					if obsKey(m) != k || len(m.trace) != len(n.trace) {
						return &hist.Violation{What: "harness", Tags: []string{"harness"}, Expected: "a schedule replays deterministically", Observed: "different observations on replay of " + fmt.Sprint(choices)}, choices
					}
				}
				if v, c := x.branch(n, i+1, cost, idx, false); v != nil || x.capped {
					return v, c
				}
			}
		}
		// moving past point i along the taken choice: a non-zero choice at a non-exit point was a preemption
		if !p.Exit && p.Chosen != 0 {
			pre++
		}
	}
	return nil, nil
}

func (x *Explorer) Capped() bool { return x.capped }

// ExploreGC enumerates single (and pairs of) forced collections at every statement position of a one-thread scenario.
func ExploreGC(sc *Scenario, events int, shard, shards int, deadline time.Time, st *hist.Stats) (*hist.Violation, []int, error) {
	ref, err := reference(sc)
	if err != nil {
		return nil, nil, err
	}
	x := &Explorer{Sc: sc, Stats: st, ref: ref, outcomes: map[string]int{}}
	base := runOnce(sc, nil, nil)
	n := len(base.trace)
	run := func(pos []int) (*hist.Violation, []int) {
		at := map[int]bool{}
		for _, p := range pos {
			at[p] = true
		}
		o := runOnce(sc, nil, at)
		st.Evaluations++
		st.Nontrivial++
		x.outcomes[obsKey(o)]++
		if v := x.check(o); v != nil {
			v.What = fmt.Sprintf("collection forced at statement position(s) %v of %d: %s", pos, n, v.What)
			return v, pos
		}
		return nil, nil
	}
	k := 0
	for i := 0; i < n; i++ {
		k++
		if shards > 1 && k%shards != shard {
			continue
		}
		if !deadline.IsZero() && time.Now().After(deadline) {
			st.Exhaustive = false
			st.CapHit = "deadline"
			break
		}
		if v, p := run([]int{i}); v != nil {
			return v, p, nil
		}
		if events >= 2 {
			// second event within the next 48 statement positions (two collections close together:
			// e.g. one inside the allocation of a node, one inside the linking that follows)
			for j := i + 1; j < n && j <= i+48; j++ {
				if v, p := run([]int{i, j}); v != nil {
					return v, p, nil
				}
			}
		}
	}
	st.Outcomes = x.outcomes
	return nil, nil, nil
}

// Replay re-executes one recorded schedule (or set of GC positions) and checks it.
func Replay(sc *Scenario, choices []int, gc bool) (*hist.Violation, error) {
	ref, err := reference(sc)
	if err != nil {
		return nil, err
	}
	x := &Explorer{Sc: sc, Stats: &hist.Stats{}, ref: ref}
	var o *outcome
	if gc {
		at := map[int]bool{}
		for _, p := range choices {
			at[p] = true
		}
		o = runOnce(sc, nil, at)
	} else {
		o = runOnce(sc, choices, nil)
	}
	return x.check(o), nil
}
