// Package vsched is injected into the module of the library under test through
// `go build -overlay` (it does not exist in the repository). It provides the
// statement-level scheduling point P() and scheduler-aware stand-ins for the
// sync primitives the library uses, so that a controlled scheduler owns every
// source of nondeterminism: goroutine interleaving, what a pool hands out, and
// when the garbage collector runs.
package vsched

import (
	"fmt"
	"runtime"
)

// ---- execution ----

// Exec is one controlled execution: threads run strictly one at a time.
type Exec struct {
	Choices []int // choice list: at step i take alternative Choices[i]; beyond the list: 0 (keep running)
	// GCAt: step numbers at which a collection is forced (environment event)
	GCAt map[int]bool

	threads []*thread
	cur     int
	step    int
	Trace   []Point // one entry per decision point
	Panics  []string
	live    int
	done    chan struct{}
	Diverged string
}

// Point records a decision point: which thread ran, how many alternatives existed.
type Point struct {
	Running int
	Alts    int  // number of live threads (alternative 0 = keep the running thread)
	Exit    bool // the running thread had just finished (choice is free: no preemption)
	Chosen  int
}

type thread struct {
	id    int
	wake  chan struct{}
	alive bool
}

var cur *Exec // the active execution; nil: P() is a no-op

// Active reports whether a controlled execution is running.
func Active() bool { return cur != nil }

// Steps returns the number of scheduling points passed so far in the active execution.
func Steps() int {
	if cur == nil {
		return 0
	}
	return cur.step
}

// P is the scheduling point inserted before every statement of the library.
func P() {
	e := cur
	if e == nil {
		return
	}
	e.point(false)
}

// order returns the live threads with the running one first, then ascending ids.
func (e *Exec) order(exit bool) []int {
	var o []int
	if !exit {
		o = append(o, e.cur)
	}
	for _, t := range e.threads {
		if t.alive && (exit || t.id != e.cur) {
			o = append(o, t.id)
		}
	}
	return o
}

func (e *Exec) point(exit bool) {
	if e.GCAt != nil && e.GCAt[e.step] {
		runtime.GC()
	}
	o := e.order(exit)
	if len(o) == 0 {
		return
	}
	choice := 0
	if e.step < len(e.Choices) {
		choice = e.Choices[e.step]
		if choice < 0 || choice >= len(o) {
			e.Diverged = fmt.Sprintf("choice %d out of range at step %d (alternatives %d)", choice, e.step, len(o))
			choice = 0
		}
	}
	e.Trace = append(e.Trace, Point{Running: e.cur, Alts: len(o), Exit: exit, Chosen: choice})
	e.step++
	next := o[choice]
	if next == e.cur && !exit {
		return
	}
	me := e.cur
	e.cur = next
	e.threads[next].wake <- struct{}{}
	if !exit {
		<-e.threads[me].wake
	}
}

// yieldBlocked hands control to another live thread because the running one cannot proceed.
func (e *Exec) yieldBlocked() {
	var o []int
	for _, t := range e.threads {
		if t.alive && t.id != e.cur {
			o = append(o, t.id)
		}
	}
	if len(o) == 0 {
		panic("vsched: deadlock (no other live thread while blocked)")
	}
	choice := 0
	if e.step < len(e.Choices) {
		choice = e.Choices[e.step]
		if choice < 0 || choice >= len(o) {
			choice = 0
		}
	}
	e.Trace = append(e.Trace, Point{Running: e.cur, Alts: len(o), Exit: true, Chosen: choice})
	e.step++
	me := e.cur
	e.cur = o[choice]
	e.threads[e.cur].wake <- struct{}{}
	<-e.threads[me].wake
}

// Run executes the thread bodies under the choice list and returns when all have finished.
func (e *Exec) Run(bodies []func()) {
	if cur != nil {
		panic("vsched: nested execution")
	}
	e.threads = make([]*thread, len(bodies))
	e.done = make(chan struct{})
	e.live = len(bodies)
	for i := range bodies {
		e.threads[i] = &thread{id: i, wake: make(chan struct{}), alive: true}
	}
	for i, b := range bodies {
		i, b := i, b
		go func() {
			<-e.threads[i].wake
			func() {
				defer func() {
					if r := recover(); r != nil {
						e.Panics = append(e.Panics, fmt.Sprintf("thread %d: %v", i, r))
					}
				}()
				b()
			}()
			e.threads[i].alive = false
			e.live--
			if e.live == 0 {
				cur = nil
				close(e.done)
				return
			}
			e.point(true)
		}()
	}
	cur = e
	e.cur = 0
	// the first decision: which thread starts (free choice)
	o := e.order(true)
	choice := 0
	if e.step < len(e.Choices) {
		choice = e.Choices[e.step]
		if choice < 0 || choice >= len(o) {
			e.Diverged = fmt.Sprintf("choice %d out of range at step %d", choice, e.step)
			choice = 0
		}
	}
	e.Trace = append(e.Trace, Point{Running: -1, Alts: len(o), Exit: true, Chosen: choice})
	e.step++
	e.cur = o[choice]
	e.threads[e.cur].wake <- struct{}{}
	<-e.done
}

// RunSolo runs one body with GC events only (no other thread).
func (e *Exec) RunSolo(body func()) { e.Run([]func(){body}) }

// ---- pool model ----

var pools []*Pool

// Pool stands in for sync.Pool: a deterministic LIFO list. Under the controlled
// scheduler Get and Put are atomic (threads only switch at P()), which is the
// linearizable behaviour sync.Pool guarantees.
type Pool struct {
	New        func() any
	items      []any
	registered bool
}

func (p *Pool) reg() {
	if !p.registered {
		p.registered = true
		pools = append(pools, p)
	}
}

func (p *Pool) Get() any {
	p.reg()
	if n := len(p.items); n > 0 {
		x := p.items[n-1]
		p.items[n-1] = nil
		p.items = p.items[:n-1]
		return x
	}
	if p.New != nil {
		return p.New()
	}
	return nil
}

func (p *Pool) Put(x any) {
	p.reg()
	p.items = append(p.items, x)
}

// ResetPools empties every pool model (between executions).
func ResetPools() {
	for _, p := range pools {
		for i := range p.items {
			p.items[i] = nil
		}
		p.items = p.items[:0]
	}
}

// PoolSizes reports how many nodes each pool model holds.
func PoolSizes() []int {
	out := make([]int, len(pools))
	for i, p := range pools {
		out[i] = len(p.items)
	}
	return out
}

// ---- lock shims (the library has none today; a change that introduces them stays explorable) ----

// Mutex is a cooperative mutex: Lock spins through scheduling points while held.
type Mutex struct{ held bool }

func (m *Mutex) Lock() {
	for m.held {
		if cur == nil {
			panic("vsched.Mutex: contended outside a controlled execution")
		}
		cur.yieldBlocked()
	}
	m.held = true
}
func (m *Mutex) Unlock() { m.held = false }
func (m *Mutex) TryLock() bool {
	if m.held {
		return false
	}
	m.held = true
	return true
}

// RWMutex is modelled as a writer-exclusive lock with a reader count.
type RWMutex struct {
	w bool
	r int
}

func (m *RWMutex) Lock() {
	for m.w || m.r > 0 {
		if cur == nil {
			panic("vsched.RWMutex: contended outside a controlled execution")
		}
		cur.yieldBlocked()
	}
	m.w = true
}
func (m *RWMutex) Unlock() { m.w = false }
func (m *RWMutex) RLock() {
	for m.w {
		if cur == nil {
			panic("vsched.RWMutex: contended outside a controlled execution")
		}
		cur.yieldBlocked()
	}
	m.r++
}
func (m *RWMutex) RUnlock() { m.r-- }

// Once mirrors sync.Once.
type Once struct{ done bool }

func (o *Once) Do(f func()) {
	if !o.done {
		o.done = true
		f()
	}
}
