// Package nodex is engine E2: explicit-state closure over a bare inner node
// (add/remove sequences through all size classes) and exhaustive sweeps of the
// SWAR/SIMD primitives (property C10).
package nodex

import (
	"fmt"
	"sort"
	"strings"
	"time"

	art "github.com/Clement-Jean/go-art"

	"verif/hist"
)

// Spec is one node closure: setup parks the node, then the closure explores
// add/remove over Alphabet.
type Spec struct {
	Name      string
	Prefix    []byte // compressed path given to the node (must survive grow/shrink)
	SetupAdd  []byte
	SetupDel  []byte
	Alphabet  []byte
	MaxStates int
}

func idOf(b byte) int { return int(b) + 1 }

type model struct {
	present [256]bool
	n       int
}

func (m *model) apply(op hist.Op) {
	b := byte(op.K)
	if op.Kind == hist.OpInsert {
		if !m.present[b] {
			m.present[b] = true
			m.n++
		}
	} else if m.present[b] {
		m.present[b] = false
		m.n--
	}
}

func opString(op hist.Op) string {
	if op.Kind == hist.OpInsert {
		return fmt.Sprintf("add(%02x)", op.K)
	}
	return fmt.Sprintf("remove(%02x)", op.K)
}

func pathString(p []hist.Op) string {
	s := make([]string, len(p))
	for i, o := range p {
		s[i] = opString(o)
	}
	return strings.Join(s, " ")
}

func (sp *Spec) setupOps() []hist.Op {
	var ops []hist.Op
	for _, b := range sp.SetupAdd {
		ops = append(ops, hist.Op{Kind: hist.OpInsert, K: int(b)})
	}
	for _, b := range sp.SetupDel {
		ops = append(ops, hist.Op{Kind: hist.OpDelete, K: int(b)})
	}
	return ops
}

func safely(f func()) (p string) {
	defer func() {
		if r := recover(); r != nil {
			p = fmt.Sprint(r)
		}
	}()
	f()
	return ""
}

func applyOp(h *art.VerifNodeHandle, op hist.Op) string {
	return safely(func() {
		if op.Kind == hist.OpInsert {
			h.Add(byte(op.K), idOf(byte(op.K)))
		} else {
			h.Remove(byte(op.K))
		}
	})
}

// build replays setup+path on a fresh node.
func (sp *Spec) build(path []hist.Op) (*art.VerifNodeHandle, *model, string) {
	h := art.NewVerifNodeHandle()
	if len(sp.Prefix) > 0 {
		h.SetPrefix(sp.Prefix)
	}
	m := &model{}
	for _, op := range append(sp.setupOps(), path...) {
		if p := applyOp(h, op); p != "" {
			return h, m, p
		}
		m.apply(op)
	}
	return h, m, ""
}

func viol(what, exp, obs string) *hist.Violation {
	return &hist.Violation{What: what, Expected: exp, Observed: obs}
}

// scalarInsertPos is the plain scan over the occupied lanes.
func scalarInsertPos(lanes []byte, n int, b byte) int {
	for i := 0; i < n; i++ {
		if lanes[i] > b {
			return i
		}
	}
	return -1
}

func scalarSearch(lanes []byte, n int, b byte) int {
	for i := 0; i < n; i++ {
		if lanes[i] == b {
			return i
		}
	}
	return -1
}

// checkState evaluates the whole table contract on one node state.
func checkState(h *art.VerifNodeHandle, m *model, st *hist.Stats, prefix []byte) *hist.Violation {
	if id, collapsed := h.Collapsed(); collapsed {
		// the node was replaced by its last child: it must be the one remaining child
		want := -1
		for b := 0; b < 256; b++ {
			if m.present[b] {
				want = idOf(byte(b))
			}
		}
		if m.n != 1 || id != want {
			return viol("node collapsed into a single child", fmt.Sprintf("child %d (of %d registered)", want, m.n), fmt.Sprintf("child %d", id))
		}
		return nil
	}
	var raw *art.VerifNode
	if p := safely(func() { raw = h.Raw() }); p != "" {
		return viol("walking the node", "walkable", "panic: "+p)
	}
	if raw.ChildrenLen != m.n {
		return viol("recorded fan-out", fmt.Sprint(m.n), fmt.Sprint(raw.ChildrenLen))
	}
	if raw.PrefixLen != len(prefix) || string(raw.Prefix[:min(len(prefix), len(raw.Prefix))]) != string(prefix[:min(len(prefix), len(raw.Prefix))]) {
		return viol("compressed path carried across size classes", fmt.Sprintf("%x (len %d)", prefix, len(prefix)), fmt.Sprintf("%x (len %d)", raw.Prefix, raw.PrefixLen))
	}
	// probe all 256 bytes
	for p := 0; p < 256; p++ {
		var id int
		var ok bool
		if pn := safely(func() { id, ok = h.Find(byte(p)) }); pn != "" {
			return viol(fmt.Sprintf("find(%02x)", p), "returns", "panic: "+pn)
		}
		st.Evaluations++
		if m.present[p] {
			st.Nontrivial++
		}
		if ok != m.present[p] || (ok && id != idOf(byte(p))) {
			exp := "nothing"
			if m.present[p] {
				exp = fmt.Sprintf("child %d", idOf(byte(p)))
			}
			obs := "nothing"
			if ok {
				obs = fmt.Sprintf("child %d", id)
			}
			return viol(fmt.Sprintf("find(%02x)", p), exp, obs)
		}
	}
	// enumeration in ascending unsigned byte order, both directions, extremes
	var want []int
	for b := 0; b < 256; b++ {
		if m.present[b] {
			want = append(want, idOf(byte(b)))
		}
	}
	var fwd, rev []int
	if p := safely(func() { fwd = h.Forward() }); p != "" {
		return viol("forward enumeration", fmt.Sprint(want), "panic: "+p)
	}
	if p := safely(func() { rev = h.Reverse() }); p != "" {
		return viol("reverse enumeration", "reverse of "+fmt.Sprint(want), "panic: "+p)
	}
	st.Evaluations += 2
	if !equalInts(fwd, want) {
		return viol("forward enumeration", fmt.Sprint(want), fmt.Sprint(fwd))
	}
	for i, j := 0, len(rev)-1; i < j; i, j = i+1, j-1 {
		rev[i], rev[j] = rev[j], rev[i]
	}
	if !equalInts(rev, want) {
		return viol("reverse enumeration (shown reversed)", fmt.Sprint(want), fmt.Sprint(rev))
	}
	if len(want) > 0 {
		var mn, mx int
		if p := safely(func() { mn, mx = h.Min(), h.Max() }); p != "" {
			return viol("min/max child", "returns", "panic: "+p)
		}
		if mn != want[0] || mx != want[len(want)-1] {
			return viol("min/max child", fmt.Sprintf("%d/%d", want[0], want[len(want)-1]), fmt.Sprintf("%d/%d", mn, mx))
		}
	}
	// the insert-position primitive on the raw state actually reached
	switch raw.Kind {
	case 0:
		w := art.VerifConstruct(raw.RawKeys[0], raw.RawKeys[1], raw.RawKeys[2], raw.RawKeys[3])
		for p := 0; p < 256; p++ {
			if m.present[p] {
				continue
			}
			got := art.VerifInsertPosNode4(w, byte(p))
			exp := scalarInsertPos(raw.RawKeys, m.n, byte(p))
			st.Evaluations++
			if !(got == exp || (exp == -1 && got == m.n)) {
				// the 4-slot add path applies no fill-count guard: a position at or beyond the
				// fan-out misplaces the child
				return viol(fmt.Sprintf("4-slot insert position for %02x on lanes %x (fan-out %d)", p, raw.RawKeys, m.n), fmt.Sprint(exp), fmt.Sprint(got))
			}
		}
	case 1:
		var lanes [16]byte
		copy(lanes[:], raw.RawKeys)
		for p := 0; p < 256; p++ {
			got := art.VerifInsertPosNode16(&lanes, uint8(m.n), byte(p))
			exp := scalarInsertPos(raw.RawKeys, m.n, byte(p))
			gs := art.VerifSearchNode16(&lanes, uint8(m.n), byte(p))
			es := scalarSearch(raw.RawKeys, m.n, byte(p))
			st.Evaluations += 2
			if !(got == exp || (exp == -1 && got == m.n)) {
				return viol(fmt.Sprintf("16-slot insert position for %02x on lanes %x (fan-out %d)", p, raw.RawKeys, m.n), fmt.Sprint(exp), fmt.Sprint(got))
			}
			if gs != es {
				return viol(fmt.Sprintf("16-slot search for %02x on lanes %x (fan-out %d)", p, raw.RawKeys, m.n), fmt.Sprint(es), fmt.Sprint(gs))
			}
		}
	}
	return nil
}

func equalInts(a, b []int) bool {
	if len(a) != len(b) {
		return false
	}
	for i := range a {
		if a[i] != b[i] {
			return false
		}
	}
	return true
}

type rec struct {
	parent int32
	op     hist.Op
	depth  int32
}

// Explore runs the closure of one node spec.
func Explore(sp Spec, tier string, deadline time.Duration) *hist.Result {
	start := time.Now()
	res := &hist.Result{Universe: "node/" + sp.Name, Property: "C10"}
	st := &res.Stats
	st.Exhaustive = true
	defer func() { st.WallS = time.Since(start).Seconds() }()
	fail := func(v *hist.Violation, path []hist.Op) *hist.Result {
		v.Property, v.Universe, v.Tier = "C10", res.Universe, tier
		v.Path = path
		v.PathStr = pathString(path)
		v.SetupStr = pathString(sp.setupOps())
		// confirm 5x
		for i := 0; i < 5; i++ {
			if v2 := EvalPath(sp, path); v2 == nil || v2.What != v.What || v2.Observed != v.Observed {
				res.HarnessErr = fmt.Sprintf("violation did not reproduce: %v vs %v", v, v2)
				return res
			}
		}
		res.Violations = append(res.Violations, v)
		st.Exhaustive = false
		st.CapHit = "stopped at first violation"
		return res
	}
	// monitored setup
	{
		h := art.NewVerifNodeHandle()
		if len(sp.Prefix) > 0 {
			h.SetPrefix(sp.Prefix)
		}
		m := &model{}
		for i, op := range sp.setupOps() {
			p := applyOp(h, op)
			m.apply(op)
			st.Transitions++
			var v *hist.Violation
			if p != "" {
				v = viol(opString(op), "returns", "panic: "+p)
			} else {
				v = checkState(h, m, st, sp.Prefix)
			}
			if v != nil {
				v.Property, v.Universe, v.Tier = "C10", res.Universe, tier
				v.SetupStr = pathString(sp.setupOps()[:i+1])
				v.Tags = append(v.Tags, fmt.Sprintf("in-setup:%d", i+1))
				res.Violations = append(res.Violations, v)
				return res
			}
		}
	}
	seen := map[hist.Hash]struct{}{}
	var recs []rec
	pathOf := func(id int32) []hist.Op {
		p := make([]hist.Op, recs[id].depth)
		for id > 0 {
			r := recs[id]
			p[r.depth-1] = r.op
			id = r.parent
		}
		return p
	}
	var scratch []byte
	keyOf := func(h *art.VerifNodeHandle) hist.Hash {
		if id, c := h.Collapsed(); c {
			return hist.HashOf([]byte(fmt.Sprintf("collapsed:%d", id)))
		}
		scratch = hist.Serialize(scratch[:0], h.Raw(), hist.KeyRaw, func(v any) int { return v.(int) })
		return hist.HashOf(scratch)
	}
	h0, m0, p0 := sp.build(nil)
	if p0 != "" {
		res.HarnessErr = "setup panics on replay: " + p0
		return res
	}
	if v := checkState(h0, m0, st, sp.Prefix); v != nil {
		return fail(v, nil)
	}
	seen[keyOf(h0)] = struct{}{}
	recs = append(recs, rec{parent: -1})
	st.States = 1
	frontier := []int32{0}
	for len(frontier) > 0 {
		var next []int32
		for _, sid := range frontier {
			path := pathOf(sid)
			_, m, _ := sp.build(path)
			for _, b := range sp.Alphabet {
				op := hist.Op{Kind: hist.OpInsert, K: int(b)}
				if m.present[b] {
					op.Kind = hist.OpDelete
				}
				if deadline > 0 && time.Since(start) > deadline {
					st.Exhaustive = false
					st.CapHit = "deadline " + deadline.String()
					return res
				}
				h, m2, p := sp.build(path)
				if p != "" {
					res.HarnessErr = "replay panics: " + p
					return res
				}
				if _, c := h.Collapsed(); c {
					continue // terminal
				}
				full := append(path[:len(path):len(path)], op)
				pn := applyOp(h, op)
				m2.apply(op)
				st.Transitions++
				if pn != "" {
					return fail(viol(opString(op), "returns", "panic: "+pn), full)
				}
				k := keyOf(h)
				if _, ok := seen[k]; ok {
					continue
				}
				seen[k] = struct{}{}
				st.States++
				if v := checkState(h, m2, st, sp.Prefix); v != nil {
					return fail(v, full)
				}
				id := int32(len(recs))
				recs = append(recs, rec{parent: sid, op: op, depth: int32(len(full))})
				next = append(next, id)
				if len(full) > st.MaxDepth {
					st.MaxDepth = len(full)
				}
				if sp.MaxStates > 0 && st.States >= sp.MaxStates {
					st.Exhaustive = false
					st.CapHit = fmt.Sprintf("state cap %d", sp.MaxStates)
					return res
				}
			}
		}
		st.Levels++
		frontier = next
	}
	if len(recs) > 1 {
		st.Samples = append(st.Samples, "setup{"+pathString(sp.setupOps())+"} shortest: "+pathString(pathOf(1))+" | deepest: "+pathString(pathOf(int32(len(recs)-1))))
	} else {
		st.Samples = append(st.Samples, "setup{"+pathString(sp.setupOps())+"}")
	}
	return res
}

// EvalPath replays one add/remove history and checks the final state (replay primitive).
func EvalPath(sp Spec, path []hist.Op) *hist.Violation {
	if len(path) == 0 {
		h, m, p := sp.build(nil)
		if p != "" {
			return viol("setup", "returns", "panic: "+p)
		}
		return checkState(h, m, &hist.Stats{}, sp.Prefix)
	}
	h, m, p := sp.build(path[:len(path)-1])
	if p != "" {
		return viol("replay", "returns", "panic: "+p)
	}
	op := path[len(path)-1]
	if pn := applyOp(h, op); pn != "" {
		return viol(opString(op), "returns", "panic: "+pn)
	}
	m.apply(op)
	return checkState(h, m, &hist.Stats{}, sp.Prefix)
}

// ---- specs ----

func spread(n int, avoid []byte) []byte {
	av := map[byte]bool{}
	for _, b := range avoid {
		av[b] = true
	}
	var out []byte
	seen := map[byte]bool{}
	add := func(b byte) {
		if len(out) < n && !seen[b] && !av[b] {
			seen[b] = true
			out = append(out, b)
		}
	}
	for _, b := range []byte{0x00, 0x01, 0x7f, 0x80, 0xff, 0xfe, 0x81} {
		add(b)
	}
	for i := 0; len(out) < n && i < 256; i++ {
		r := 0
		for k := 0; k < 8; k++ {
			if i&(1<<k) != 0 {
				r |= 1 << (7 - k)
			}
		}
		add(byte(r))
	}
	return out
}

func order(bs []byte, variant int) []byte {
	out := append([]byte(nil), bs...)
	switch variant % 3 {
	case 0:
		sort.Slice(out, func(a, b int) bool { return out[a] < out[b] })
	case 1:
		sort.Slice(out, func(a, b int) bool { return out[a] > out[b] })
	}
	return out
}

// window builds a closure parked at `hold` children (after adding hold+extra and removing extra).
func window(name string, hold, extra, free int, variant int, prefix []byte) Spec {
	alpha := []byte{0x00, 0x01, 0x7f, 0x80, 0xff, 0x41, 0xfe, 0x81}[:free]
	// half of the window bytes are parked (present), half absent
	var presentAlpha []byte
	for i, b := range alpha {
		if i%2 == 0 && len(presentAlpha) < hold {
			presentAlpha = append(presentAlpha, b)
		}
	}
	others := spread(hold+extra-len(presentAlpha), alpha)
	adds := order(append(append([]byte{}, presentAlpha...), others...), variant)
	var dels []byte
	if extra > 0 {
		srt := order(others, 0)
		step := len(srt) / extra
		for i := 0; i < extra; i++ {
			dels = append(dels, srt[i*step+step/2])
		}
	}
	return Spec{Name: name, Prefix: prefix, SetupAdd: adds, SetupDel: dels, Alphabet: alpha}
}

// Specs lists the node closures of a tier.
func Specs(tier string) []Spec {
	th := tier == "thorough"
	var out []Spec
	alphas := [][]byte{
		{0x00, 0x01, 0x7f, 0x80, 0x81, 0xfe, 0xff, 0x41},
		{0x00, 0x7e, 0x7f, 0x80, 0x81, 0xff, 0x02, 0x10},
		{0xf8, 0xf9, 0xfa, 0xfb, 0xfc, 0xfd, 0xfe, 0xff},
		{0x00, 0x01, 0x02, 0x03, 0x04, 0x05, 0x06, 0x07},
		{0x3f, 0x40, 0x7f, 0x80, 0xbf, 0xc0, 0x20, 0xe0},
		{0x00, 0x80, 0x40, 0xc0, 0x20, 0xa0, 0x60, 0xe0},
	}
	for i, a := range alphas {
		out = append(out, Spec{Name: fmt.Sprintf("N4-16/alpha%d", i), Alphabet: a})
	}
	out = append(out, Spec{Name: "N4-16/path3", Alphabet: alphas[0], Prefix: []byte("abc")})
	out = append(out, Spec{Name: "N4-16/path12", Alphabet: alphas[0][:6], Prefix: []byte("pppppppppppp")})
	free := 5
	if th {
		free = 7
	}
	for v := 0; v < 3; v++ {
		if !th && v > 0 {
			break
		}
		out = append(out,
			window(fmt.Sprintf("N16@15/ord%d", v), 15, 0, free, v, nil),
			window(fmt.Sprintf("N48@14/ord%d", v), 14, 3, free, v, nil),
			window(fmt.Sprintf("N48@46/ord%d", v), 46, 0, free, v, nil),
			window(fmt.Sprintf("N256@39/ord%d", v), 39, 10, free, v, nil),
		)
	}
	out = append(out,
		window("N48@14/path3", 14, 3, 4, 2, []byte("abc")),
		window("N256@39/path12", 39, 10, 4, 1, []byte("pppppppppppp")),
		window("N48@46/path12", 46, 0, 4, 2, []byte("pppppppppppp")),
		window("N16@15/path3", 15, 0, 4, 1, []byte("abc")),
	)
	if th {
		out = append(out, window("N48@42", 42, 0, 6, 2, nil), window("N256@42", 42, 8, 6, 1, nil), window("N16@8", 8, 0, 7, 2, nil))
		for i, a := range PairwiseAlphabets() {
			out = append(out, Spec{Name: fmt.Sprintf("N4-16/pairwise%04d", i), Alphabet: a})
		}
	}
	for i := range out {
		if out[i].MaxStates == 0 {
			out[i].MaxStates = 3000000
		}
	}
	return out
}

// PairwiseAlphabets returns a greedy family of 8-byte alphabets in which every
// unordered pair of byte values co-occurs in some alphabet.
func PairwiseAlphabets() [][]byte {
	// blocks of 4: alphabets are unions of two blocks => every pair of blocks
	// co-occurs => every pair of bytes co-occurs. 64 blocks -> 64*63/2+... = 2016 alphabets.
	var out [][]byte
	for i := 0; i < 64; i++ {
		for j := i + 1; j < 64; j++ {
			var a []byte
			for k := 0; k < 4; k++ {
				a = append(a, byte(i*4+k))
			}
			for k := 0; k < 4; k++ {
				a = append(a, byte(j*4+k))
			}
			out = append(out, a)
		}
	}
	return out
}

func FindSpec(name string) (Spec, bool) {
	for _, t := range []string{"quick", "thorough"} {
		for _, s := range Specs(t) {
			if "node/"+s.Name == name || s.Name == name {
				return s, true
			}
		}
	}
	return Spec{}, false
}
