package nodex

import (
	"fmt"
	"sort"
	"strconv"
	"strings"
	"time"

	art "github.com/Clement-Jean/go-art"

	"verif/hist"
)

// boundary alphabets for lane values
func boundaryBytes(n int) []byte {
	base := []byte{0x00, 0x01, 0x02, 0x7e, 0x7f, 0x80, 0x81, 0xfe, 0xff, 0x10, 0x3f, 0x40, 0x41, 0xbf, 0xc0, 0xc1}
	seen := map[byte]bool{}
	var out []byte
	for _, b := range base {
		if len(out) < n && !seen[b] {
			seen[b] = true
			out = append(out, b)
		}
	}
	for i := 0; len(out) < n; i++ {
		b := byte(i*37 + 5)
		if !seen[b] {
			seen[b] = true
			out = append(out, b)
		}
	}
	sort.Slice(out, func(a, b int) bool { return out[a] < out[b] })
	return out
}

// PrimJobs lists the primitive sweep jobs of a tier.
func PrimJobs(tier string) []string {
	var out []string
	out = append(out, "prim/search4/n0", "prim/search4/n1", "prim/search4/n3", "prim/search4/n4")
	shards := 8
	for s := 0; s < shards; s++ {
		out = append(out, fmt.Sprintf("prim/search4/n2/%d/%d", s, shards))
	}
	for n := 0; n <= 16; n++ {
		out = append(out, fmt.Sprintf("prim/node16/n%d", n))
	}
	return out
}

// RunPrim executes one primitive sweep job.
func RunPrim(name, tier string, deadline time.Duration) *hist.Result {
	start := time.Now()
	res := &hist.Result{Universe: name, Property: "C10"}
	st := &res.Stats
	st.Exhaustive = true
	st.States = 0
	defer func() { st.WallS = time.Since(start).Seconds() }()
	parts := strings.Split(name, "/")
	var v *hist.Violation
	switch parts[1] {
	case "search4":
		n, _ := strconv.Atoi(parts[2][1:])
		shard, shards := 0, 1
		if len(parts) == 5 {
			shard, _ = strconv.Atoi(parts[3])
			shards, _ = strconv.Atoi(parts[4])
		}
		v = sweepSearch4(n, shard, shards, tier, st)
	case "node16":
		n, _ := strconv.Atoi(parts[2][1:])
		v = sweepNode16(n, st)
	default:
		res.HarnessErr = "unknown primitive job " + name
		return res
	}
	if v != nil {
		v.Property, v.Universe, v.Tier = "C10", name, tier
		res.Violations = append(res.Violations, v)
		st.Exhaustive = false
	}
	return res
}

// sweepSearch4: all sorted distinct occupied lanes x arbitrary free lanes x all 256 probes.
// Verdict through the guard the node code applies: the scalar answer, or - when the byte is
// not among the occupied slots - anything the caller's guard discards (-1 or an index >= n).
func sweepSearch4(n, shard, shards int, tier string, st *hist.Stats) *hist.Violation {
	var occAlpha []byte
	switch {
	case n <= 1:
		occAlpha = allBytes()
	case n == 2:
		if tier == "thorough" {
			occAlpha = allBytes()
		} else {
			occAlpha = boundaryBytes(64)
		}
	default:
		occAlpha = boundaryBytes(32)
	}
	stale := boundaryBytes(16)
	var lanes [4]byte
	var firstSample string
	count := 0
	var rec func(pos int, minIdx int) *hist.Violation
	evalFree := func() *hist.Violation {
		// enumerate free lanes n..3 over stale alphabet (+ the probe itself via the alphabet containing many values)
		nf := 4 - n
		total := 1
		for i := 0; i < nf; i++ {
			total *= len(stale)
		}
		for f := 0; f < total; f++ {
			x := f
			for i := n; i < 4; i++ {
				lanes[i] = stale[x%len(stale)]
				x /= len(stale)
			}
			w := art.VerifConstruct(lanes[0], lanes[1], lanes[2], lanes[3])
			for p := 0; p < 256; p++ {
				// also force the free lanes to equal the probe once per word (looks like a match)
				got := art.VerifSearchNode4(w, byte(p))
				exp := scalarSearch(lanes[:], n, byte(p))
				st.Evaluations++
				ok := got == exp || (exp == -1 && got >= n)
				if !ok {
					return viol(fmt.Sprintf("4-slot search for %02x in lanes %x with fan-out %d", p, lanes, n), fmt.Sprintf("%d (or, for an absent byte, an index the fan-out guard discards)", exp), fmt.Sprint(got))
				}
			}
			if nf == 0 {
				break
			}
		}
			if nf > 0 {
			// free lanes all equal to each probe
			for p := 0; p < 256; p++ {
				for i := n; i < 4; i++ {
					lanes[i] = byte(p)
				}
				w := art.VerifConstruct(lanes[0], lanes[1], lanes[2], lanes[3])
				got := art.VerifSearchNode4(w, byte(p))
				exp := scalarSearch(lanes[:], n, byte(p))
				st.Evaluations++
				if !(got == exp || (exp == -1 && got >= n)) {
					return viol(fmt.Sprintf("4-slot search for %02x in lanes %x with fan-out %d", p, lanes, n), fmt.Sprint(exp), fmt.Sprint(got))
				}
			}
		}
		return nil
	}
	rec = func(pos int, minIdx int) *hist.Violation {
		if pos == n {
			count++
			if firstSample == "" {
				firstSample = fmt.Sprintf("occupied lanes %x (fan-out %d), free lanes over %x and equal-to-probe, probes 00..ff", lanes[:n], n, stale)
			}
			return evalFree()
		}
		for i := minIdx; i < len(occAlpha); i++ {
			if pos == 0 && shards > 1 && i%shards != shard {
				continue
			}
			lanes[pos] = occAlpha[i]
			if v := rec(pos+1, i+1); v != nil {
				return v
			}
		}
		return nil
	}
	v := rec(0, 0)
	st.Nontrivial = count
	st.Samples = append(st.Samples, firstSample)
	return v
}

func allBytes() []byte {
	out := make([]byte, 256)
	for i := range out {
		out[i] = byte(i)
	}
	return out
}

// sweepNode16: fill count n x every lane position x every lane value x every probe, four backgrounds.
func sweepNode16(n int, st *hist.Stats) *hist.Violation {
	var lanes [16]byte
	for bg := 0; bg < 4; bg++ {
		for pos := 0; pos < 16; pos++ {
			for val := 0; val < 256; val++ {
				for p := 0; p < 256; p++ {
					switch bg {
					case 0: // ascending around the value
						for i := range lanes {
							lanes[i] = byte(val + (i-pos)*3)
						}
					case 1:
						for i := range lanes {
							lanes[i] = 0x00
						}
					case 2:
						for i := range lanes {
							lanes[i] = 0xff
						}
					case 3:
						for i := range lanes {
							lanes[i] = byte(p)
						}
					}
					lanes[pos] = byte(val)
					gs := art.VerifSearchNode16(&lanes, uint8(n), byte(p))
					st.Evaluations++
					// any occupied lane holding the probe is a correct answer; none => -1
					if gs == -1 {
						if es := scalarSearch(lanes[:], n, byte(p)); es != -1 {
							return viol(fmt.Sprintf("16-slot search for %02x in lanes %x with fan-out %d", p, lanes, n), fmt.Sprint(es), "-1")
						}
					} else if gs < 0 || gs >= n || lanes[gs] != byte(p) {
						return viol(fmt.Sprintf("16-slot search for %02x in lanes %x with fan-out %d", p, lanes, n), fmt.Sprint(scalarSearch(lanes[:], n, byte(p))), fmt.Sprint(gs))
					}
					// insert position: defined when the occupied lanes are non-decreasing
					sorted := true
					for i := 1; i < n; i++ {
						if lanes[i-1] > lanes[i] {
							sorted = false
							break
						}
					}
					if sorted {
						gi := art.VerifInsertPosNode16(&lanes, uint8(n), byte(p))
						ei := scalarInsertPos(lanes[:], n, byte(p))
						st.Evaluations++
						st.Nontrivial++
						if !(gi == ei || (ei == -1 && gi == n)) {
							return viol(fmt.Sprintf("16-slot insert position for %02x in lanes %x with fan-out %d", p, lanes, n), fmt.Sprint(ei), fmt.Sprint(gi))
						}
					}
				}
			}
		}
	}
	st.Samples = append(st.Samples, fmt.Sprintf("fan-out %d: every lane position x every lane value x every probe x backgrounds {ascending, 00, ff, =probe}", n))
	return nil
}
