module verif

go 1.24.0

require (
	github.com/Clement-Jean/go-art v0.0.0
	golang.org/x/text v0.23.0
)

replace github.com/Clement-Jean/go-art => /repo
