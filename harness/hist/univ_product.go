package hist

import (
	"fmt"
	"math"

	art "github.com/Clement-Jean/go-art"
)

// product trees: each parks one node right at a release/acquire threshold.

func pAlpha(name string, f FanSpec, kt string) *Universe {
	f.Name = name
	return NewAlphaUniverse(FanUniverse(f), kt)
}

func pU16(name string, f FanSpec) *Universe {
	f.Name = name
	ops := intOps[uint16](func(k uint16) []byte { _, b := art.UnsignedBinaryKey[uint16]{}.Transform(k); return b })
	return NewNumUniverse("unsigned", "uint16", func() art.Tree[uint16, int] { return art.NewUnsignedBinaryTree[uint16, int]() },
		numFromBytes(FanUniverse(f), func(b byte) uint16 { return 0x1200 | uint16(b) }), ops)
}

func pU8(name string, f FanSpec) *Universe {
	f.Name = name
	ops := intOps[uint8](func(k uint8) []byte { _, b := art.UnsignedBinaryKey[uint8]{}.Transform(k); return b })
	return NewNumUniverse("unsigned", "uint8", func() art.Tree[uint8, int] { return art.NewUnsignedBinaryTree[uint8, int]() },
		numFromBytes(FanUniverse(f), func(b byte) uint8 { return b }), ops)
}

func pF64(name string, f FanSpec) *Universe {
	f.Name = name
	ops := floatOps[float64](func(k float64) []byte { _, b := art.FloatBinaryKey[float64]{}.Transform(k); return b })
	return NewNumUniverse("float", "float64", func() art.Tree[float64, int] { return art.NewFloatBinaryTree[float64, int]() },
		numFromBytes(FanUniverse(f), func(b byte) float64 { return math.Float64frombits(0x4010000000000000 + uint64(b)) }), ops)
}

func pI64(name string, f FanSpec) *Universe {
	f.Name = name
	ops := intOps[int64](func(k int64) []byte { _, b := art.SignedBinaryKey[int64]{}.Transform(k); return b })
	return NewNumUniverse("signed", "int64", func() art.Tree[int64, int] { return art.NewSignedBinaryTree[int64, int]() },
		numFromBytes(FanUniverse(f), func(b byte) int64 { return -0x0123456789abcd80 + int64(int8(b)) }), ops)
}

func pCompound(name string) *Universe {
	s := Schema{Fields: []FieldType{FU8, FU8}, Str: true}
	mk := func(a, b uint64, str string) Tuple { return Tuple{N: []Num{{T: FU8, U: a}, {T: FU8, U: b}}, S: str} }
	free := []Tuple{mk(7, 1, ""), mk(7, 2, ""), mk(7, 2, "x"), mk(9, 0, "")}
	u := NewCompoundUniverse(name, s, free, nil, 1)
	return u
}

func pColl(name string) *Universe {
	return NewCollUniverse(CollSpec{Name: name, Free: []string{"a", "A", "ab", "b"}}, Collators()[0], "string", false)
}

// ProductSpecs lists the product closures of a tier.
func ProductSpecs(tier string) []*ProductSpec {
	th := tier == "thorough"
	np, na := 2, 1
	if th {
		np, na = 2, 2
	}
	P12 := rep('p', 12)
	var out []*ProductSpec
	add := func(name string, trees ...func() *Universe) {
		for _, pol := range []string{"lifo", "fifo"} {
			pol := pol
			var ts []*Universe
			for _, t := range trees {
				ts = append(ts, t())
			}
			dev := 1
			if th {
				dev = 2
			}
			out = append(out, &ProductSpec{Name: fmt.Sprintf("%s/%s", name, pol), Trees: ts, Policy: pol, MaxDev: dev})
		}
	}
	// node48 released (sparse slot layout) by one tree, node48 acquired by another
	add("n48down-n16up",
		func() *Universe {
			return pAlpha("N48@13sparse", FanSpec{Hold: 13, Extra: 27, Present: np, Absent: na, Fill: 52}, "string")
		},
		func() *Universe { return pU16("N16@16", FanSpec{Hold: 16, Present: na, Absent: np, Fill: 52}) })
	// node256 released, node256 acquired
	add("n256down-n48up",
		func() *Universe {
			return pU8("N256@38", FanSpec{Hold: 38, Extra: 11, Present: np, Absent: na, Fill: 52})
		},
		func() *Universe {
			return pAlpha("N48@48", FanSpec{Hold: 48, Present: na, Absent: np, Path: P12, Fill: 52}, "[]byte")
		})
	// the released node carries a compressed path, the acquiring node has none (and vice versa above)
	add("n256down-path/n48up-nopath",
		func() *Universe {
			return pAlpha("N256@38p", FanSpec{Hold: 38, Extra: 11, Present: np, Absent: na, Path: "pp", Fill: 52}, "string")
		},
		func() *Universe { return pU8("N48@48", FanSpec{Hold: 48, Present: na, Absent: np, Fill: 52}) })
	add("n48down-path/n16up-nopath",
		func() *Universe {
			return pAlpha("N48@13p", FanSpec{Hold: 13, Extra: 6, Present: np, Absent: na, Path: P12, Fill: 52}, "string")
		},
		func() *Universe { return pU8("N16@16", FanSpec{Hold: 16, Present: na, Absent: np, Fill: 52}) })
	// node16 released (after having been full), node4/node16 churn in the other trees
	add("n16down-n4up",
		func() *Universe {
			return pF64("N16@4full", FanSpec{Hold: 4, Extra: 12, Present: np, Absent: na, Fill: 20})
		},
		func() *Universe { return pI64("N4@4", FanSpec{Hold: 4, Present: na, Absent: np, Fill: 20}) })
	add("n4churn-mixed",
		func() *Universe { return pCompound("T4") },
		func() *Universe { return pColl("CASE4") })
	// both trees ACQUIRE the same class (a shrink acquires the smaller node, a grow the larger one): a node that was put
	// into a pool while still linked into its tree is handed to the other tree here
	add("n256down-n16up",
		func() *Universe {
			return pU8("N256@38", FanSpec{Hold: 38, Extra: 11, Present: np, Absent: na, Fill: 52})
		},
		func() *Universe { return pU16("N16@16", FanSpec{Hold: 16, Present: na, Absent: np, Fill: 52}) })
	add("n48down-n4up",
		func() *Universe {
			return pAlpha("N48@13", FanSpec{Hold: 13, Extra: 4, Present: np, Absent: na, Fill: 52}, "string")
		},
		func() *Universe { return pI64("N4@4", FanSpec{Hold: 4, Present: na, Absent: np, Fill: 20}) })
	add("n16down-n4split",
		func() *Universe {
			return pF64("N16@4full", FanSpec{Hold: 4, Extra: 12, Present: np, Absent: na, Fill: 20})
		},
		func() *Universe { return pCompound("T4") })
	if th {
		add("three-trees",
			func() *Universe {
				return pAlpha("N48@13sparse", FanSpec{Hold: 13, Extra: 27, Present: 1, Absent: 1, Fill: 52}, "string")
			},
			func() *Universe { return pU16("N16@16", FanSpec{Hold: 16, Present: 1, Absent: 1, Fill: 52}) },
			func() *Universe { return pU8("N256@38", FanSpec{Hold: 38, Extra: 11, Present: 1, Absent: 1, Fill: 52}) })
		add("n48down-n48up-sameclass",
			func() *Universe {
				return pU8("N48@13", FanSpec{Hold: 13, Extra: 4, Present: 2, Absent: 2, Order: 1, Fill: 52})
			},
			func() *Universe { return pU16("N16@16b", FanSpec{Hold: 16, Present: 2, Absent: 2, Order: 2, Fill: 52}) })
	}
	return out
}

func FindProduct(name string) *ProductSpec {
	for _, t := range []string{"quick", "thorough"} {
		for _, p := range ProductSpecs(t) {
			if "product/"+p.Name == name || p.Name == name {
				return p
			}
		}
	}
	return nil
}

// exported constructors used by the scheduler scenarios
func ProductTreeU16(name string, f FanSpec) *Universe { return pU16(name, f) }
func ProductTreeU8(name string, f FanSpec) *Universe  { return pU8(name, f) }

// SharedU64 is a numeric tree with several levels (readers scenario).
func SharedU64() *Universe {
	uops := intOps[uint64](func(k uint64) []byte { _, b := art.UnsignedBinaryKey[uint64]{}.Transform(k); return b })
	var setup []uint64
	for i := uint64(0); i < 6; i++ {
		setup = append(setup, 0x0002000100010000+i*13, i<<40)
	}
	return NewNumUniverse("unsigned", "uint64", func() art.Tree[uint64, int] { return art.NewUnsignedBinaryTree[uint64, int]() },
		NumSpec[uint64]{Name: "S-SHARED", Setup: setup, Free: []uint64{0x0002000100010000, 0x0002000100010000 + 13*5}, Probes: []uint64{0x0002000100010001}}, uops)
}

// SharedCompound is a compound tree with a 16-byte shared path.
func SharedCompound() *Universe {
	long := Schema{Fields: []FieldType{FU64, FU64}, Str: true}
	mk := func(a, b uint64, s string) Tuple { return Tuple{N: []Num{{T: FU64, U: a}, {T: FU64, U: b}}, S: s} }
	u := NewCompoundUniverse("S-SHARED", long, []Tuple{mk(7, 0x0101010101010100, "x"), mk(7, 0x0101010101010101, "x"), mk(8, 0, ""), mk(7, 0x0101010101010100, "")}, []Tuple{mk(6, 0, "")}, 1)
	for _, k := range u.Free {
		u.Setup = append(u.Setup, Op{Kind: OpInsert, K: k, V: 1})
	}
	return u
}

// GCUniverses: one universe per tree kind with pointer-rich values (collections inside operations).
func GCUniverses() []*Universe {
	var out []*Universe
	for _, d := range c18Kinds(vsRich, "quick") {
		out = append(out, d.Build())
	}
	for _, d := range c18Kinds(vsString, "quick")[:2] {
		out = append(out, d.Build())
	}
	return out
}

// WideLowDeleted: a uint8 tree whose root is a 256-way node from which the lowest children were deleted.
// WideFull: a 256-way node with 200 children (a traversal holds more pending entries than any fixed small stack).
func WideFull() *Universe {
	ops := intOps[uint8](func(k uint8) []byte { _, b := art.UnsignedBinaryKey[uint8]{}.Transform(k); return b })
	var setup []uint8
	for i := 0; i < 200; i++ {
		setup = append(setup, uint8(i))
	}
	return NewNumUniverse("unsigned", "uint8", func() art.Tree[uint8, int] { return art.NewUnsignedBinaryTree[uint8, int]() },
		NumSpec[uint8]{Name: "S-WIDEFULL", Setup: setup, Free: []uint8{12, 236}, Probes: []uint8{250}}, ops)
}

func WideLowDeleted() *Universe {
	ops := intOps[uint8](func(k uint8) []byte { _, b := art.UnsignedBinaryKey[uint8]{}.Transform(k); return b })
	var setup []uint8
	for i := 0; i < 60; i++ {
		setup = append(setup, uint8(i*4))
	}
	return NewNumUniverse("unsigned", "uint8", func() art.Tree[uint8, int] { return art.NewUnsignedBinaryTree[uint8, int]() },
		NumSpec[uint8]{Name: "S-WIDE", Setup: setup, SetupDel: []uint8{0, 4, 8}, Free: []uint8{12, 236}, Probes: []uint8{0}}, ops)
}
