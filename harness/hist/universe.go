package hist

import (
	"fmt"
	"sort"
	"strings"
)

type OpKind uint8

const (
	OpInsert OpKind = iota
	OpDelete
)

// Op is one mutating operation of a history.
type Op struct {
	Kind OpKind
	K    int
	V    int
}

func (o Op) String() string {
	if o.Kind == OpInsert {
		return fmt.Sprintf("Insert(k%d,%d)", o.K, o.V)
	}
	return fmt.Sprintf("Delete(k%d)", o.K)
}

// Universe fixes the alphabet of one closure: which real tree, which keys,
// which query arguments, and the oracle's view of the keys.
type Universe struct {
	Name    string
	Kind    string // alpha | unsigned | signed | float | collation | compound
	KeyType string
	NKeys   int
	KeyStr  []string // printable form of every key
	Class   []int    // identity-class representative of every key
	Rank    []int    // oracle rank (same for one class; total order between classes)
	New     func() Driver

	Setup    []Op  // history that parks the tree in its initial state
	Free     []int // keys of Insert/Delete transitions
	DelExtra []int // further keys for Delete transitions (never inserted)
	Probes   []int // Search arguments
	Bounds   []int // Range bounds
	Prefixes []int // Prefix arguments
	NVals    int   // values are 1..NVals
	Filler   []int // keys of the deterministic fill/drain epilogue (C12)

	HasPrefix   bool     // Prefix has a meaning for this kind
	HasRange    bool     // Range has a meaning (not collation)
	EmptyEndMax bool     // alpha: empty end bound means "up to the largest stored key"
	OrigBytes   [][]byte // original bytes of every key (prefix oracle; "" detection)
	// RangeSkip: pairs the property carves out (NaN bounds, the (-0,+0) pair ...).
	RangeSkip func(a, b int) bool
	// PrefixRelated reports whether storing keys i and j together hits the
	// terminator-scheme finding D9 (k||00 a proper prefix of k'||00).
	PrefixRelated func(i, j int) bool
	// TKey returns the transformed (index) bytes of key k, for the "key" poison filling.
	TKey func(k int) []byte
	// LeafKey returns the stored and index byte forms a leaf of key k must hold (nil: both TKey).
	LeafKey func(k int) (key, tkey []byte)
	// LeafFromDump: the index bytes of a key cannot be computed outside the tree (collation sort
	// keys); structural checks take them from the leaf that stores the key's original bytes.
	LeafFromDump bool

	order []int // class representatives sorted by rank
}

// Finish validates and precomputes.
func (u *Universe) Finish() *Universe {
	if u.NVals == 0 {
		u.NVals = 1
	}
	seen := map[int]bool{}
	for i := 0; i < u.NKeys; i++ {
		c := u.Class[i]
		if !seen[c] {
			seen[c] = true
			u.order = append(u.order, c)
		}
		if u.Rank[i] != u.Rank[c] {
			panic(fmt.Sprintf("universe %s: key %d and its class %d differ in rank", u.Name, i, c))
		}
	}
	sort.SliceStable(u.order, func(a, b int) bool { return u.Rank[u.order[a]] < u.Rank[u.order[b]] })
	for i := 1; i < len(u.order); i++ {
		if u.Rank[u.order[i]] == u.Rank[u.order[i-1]] {
			panic(fmt.Sprintf("universe %s: distinct keys %s and %s have the same oracle rank", u.Name, u.KeyStr[u.order[i]], u.KeyStr[u.order[i-1]]))
		}
	}
	if len(u.Probes) == 0 {
		for i := 0; i < u.NKeys; i++ {
			u.Probes = append(u.Probes, i)
		}
	}
	return u
}

// Ref is the ideal map: value per class (0 = absent).
type Ref struct {
	u   *Universe
	val []int
	n   int
}

func NewRef(u *Universe) *Ref { return &Ref{u: u, val: make([]int, u.NKeys)} }

func (r *Ref) Clone() *Ref {
	c := &Ref{u: r.u, val: append([]int(nil), r.val...), n: r.n}
	return c
}
func (r *Ref) Len() int { return r.n }
func (r *Ref) Get(k int) (int, bool) {
	v := r.val[r.u.Class[k]]
	return v, v != 0
}
func (r *Ref) Insert(k, v int) (added bool) {
	c := r.u.Class[k]
	if r.val[c] == 0 {
		r.n++
		added = true
	}
	r.val[c] = v
	return
}
func (r *Ref) Delete(k int) bool {
	c := r.u.Class[k]
	if r.val[c] == 0 {
		return false
	}
	r.val[c] = 0
	r.n--
	return true
}
func (r *Ref) Apply(op Op) {
	if op.Kind == OpInsert {
		r.Insert(op.K, op.V)
	} else {
		r.Delete(op.K)
	}
}

// Sorted lists the content in ascending oracle order.
func (r *Ref) Sorted() []Pair {
	out := make([]Pair, 0, r.n)
	for _, c := range r.u.order {
		if r.val[c] != 0 {
			out = append(out, Pair{K: c, V: r.val[c]})
		}
	}
	return out
}

func (r *Ref) String() string {
	var sb strings.Builder
	sb.WriteByte('{')
	for i, p := range r.Sorted() {
		if i > 0 {
			sb.WriteByte(' ')
		}
		fmt.Fprintf(&sb, "%s=%d", r.u.KeyStr[p.K], p.V)
	}
	sb.WriteByte('}')
	return sb.String()
}

func PairsString(u *Universe, ps []Pair) string {
	var sb strings.Builder
	sb.WriteByte('[')
	for i, p := range ps {
		if i > 0 {
			sb.WriteByte(' ')
		}
		if p.K < 0 {
			fmt.Fprintf(&sb, "<?%s>=%d", p.Str, p.V)
		} else {
			fmt.Fprintf(&sb, "%s=%d", u.KeyStr[p.K], p.V)
		}
	}
	sb.WriteByte(']')
	return sb.String()
}

func PairsEqual(a, b []Pair) bool {
	if len(a) != len(b) {
		return false
	}
	for i := range a {
		if a[i].K != b[i].K || a[i].V != b[i].V || a[i].K < 0 {
			return false
		}
	}
	return true
}

func Reverse(ps []Pair) []Pair {
	out := make([]Pair, len(ps))
	for i, p := range ps {
		out[len(ps)-1-i] = p
	}
	return out
}

func (u *Universe) OpString(op Op) string {
	if op.Kind == OpInsert {
		return fmt.Sprintf("Insert(%s,%d)", u.KeyStr[op.K], op.V)
	}
	return fmt.Sprintf("Delete(%s)", u.KeyStr[op.K])
}

func (u *Universe) PathString(p []Op) string {
	s := make([]string, len(p))
	for i, o := range p {
		s[i] = u.OpString(o)
	}
	return strings.Join(s, "; ")
}

func (u *Universe) QueryString(q Query) string {
	switch q.Kind {
	case SeqPrefix:
		return fmt.Sprintf("Prefix(%s)", u.KeyStr[q.A])
	case SeqRange:
		return fmt.Sprintf("Range(%s,%s)", u.KeyStr[q.A], u.KeyStr[q.B])
	}
	return q.String()
}
