package hist

import (
	"bytes"
	"fmt"

	art "github.com/Clement-Jean/go-art"
)

// C13: key arguments are neither written to nor retained by reference.
//
// bufDrv passes every []byte key argument in one of three buffer modes and
// compares the complete backing array with its pre-call snapshot after every
// call; afterwards the buffer is scribbled over, so a tree that kept a
// reference to it no longer holds the key.

type BufMode int

const (
	BufExact      BufMode = iota // slice exactly fills its array
	BufSub                       // buf[o:o+len] inside a larger array holding live sentinel data (cap > len)
	BufShared                    // one buffer reused for all keys (scanner idiom)
	BufSubZero                   // as BufSub, the surrounding bytes are zero (a zero-initialised buffer)
	BufSharedZero                // as BufShared, the buffer is zeroed before every key
)

func (m BufMode) String() string {
	return [...]string{"exact", "subslice", "shared", "subslice-zero", "shared-zero"}[m]
}

// AllBufModes lists the buffer modes.
var AllBufModes = []BufMode{BufExact, BufSub, BufShared, BufSubZero, BufSharedZero}

type bufDrv struct {
	keep   bool // reference pass: hand out exact private copies and never scribble
	t      art.Tree[[]byte, int]
	keys   [][]byte
	index  map[string]int
	mode   BufMode
	shared []byte
	fault  string

	// the arrays handed out during the current call
	arrs  [][]byte
	snaps [][]byte
}

type memFaulter interface {
	MemFault() string
	Scribble()
}

func NewBufDriver(t art.Tree[[]byte, int], keys [][]byte, mode BufMode) Driver {
	d := &bufDrv{t: t, keys: keys, index: map[string]int{}, mode: mode}
	maxLen := 0
	for i, k := range keys {
		if _, ok := d.index[string(k)]; !ok {
			d.index[string(k)] = i
		}
		maxLen = max(maxLen, len(k))
	}
	d.shared = make([]byte, maxLen+16)
	for i := range d.shared {
		d.shared[i] = 0xC0 | byte(i&0xf)
	}
	return d
}

func (d *bufDrv) MemFault() string { return d.fault }

// SetKeep switches the reference mode (private exact copies, no scribbling) on or off.
func (d *bufDrv) SetKeep(on bool) { d.keep = on }

// Scribble overwrites the shared buffer (the other modes scribble after every call).
func (d *bufDrv) Scribble() {
	for i := range d.shared {
		d.shared[i] = 0xEE
	}
}

// arg builds the key argument for key i in the driver's buffer mode.
func (d *bufDrv) arg(i int) []byte {
	k := d.keys[i]
	var arr, s []byte
	if d.keep {
		c := make([]byte, len(k))
		copy(c, k)
		return c
	}
	switch d.mode {
	case BufExact:
		arr = make([]byte, len(k))
		copy(arr, k)
		s = arr[:len(k):len(k)]
	case BufSub, BufSubZero:
		arr = make([]byte, len(k)+16)
		if d.mode == BufSub {
			for j := range arr {
				arr[j] = 0xA0 | byte(j&0xf)
			}
		}
		copy(arr[8:], k)
		s = arr[8 : 8+len(k)] // capacity reaches into live caller data
	case BufShared, BufSharedZero:
		arr = d.shared
		if d.mode == BufSharedZero {
			for j := range arr {
				arr[j] = 0
			}
		}
		copy(arr, k)
		s = arr[:len(k)]
	}
	d.arrs = append(d.arrs, arr)
	d.snaps = append(d.snaps, append([]byte(nil), arr...))
	return s
}

// after compares every array handed out in this call with its snapshot, then scribbles.
func (d *bufDrv) after(call string) {
	for i, arr := range d.arrs {
		if !bytes.Equal(arr, d.snaps[i]) && d.fault == "" {
			d.fault = fmt.Sprintf("%s (buffer mode %s): caller memory changed from %x to %x", call, d.mode, d.snaps[i], arr)
		}
		if d.mode != BufShared && d.mode != BufSharedZero {
			for j := range arr {
				arr[j] = 0xEE
			}
		}
	}
	d.arrs, d.snaps = d.arrs[:0], d.snaps[:0]
}

func (d *bufDrv) pair(k []byte, v int) Pair {
	if i, ok := d.index[string(k)]; ok {
		return Pair{K: i, V: v}
	}
	return Pair{K: -1, V: v, Str: fmt.Sprintf("%q", k)}
}

func (d *bufDrv) Insert(k, v int) {
	defer d.after(fmt.Sprintf("Insert(%q)", d.keys[k]))
	d.t.Insert(d.arg(k), v)
}
func (d *bufDrv) Delete(k int) bool {
	defer d.after(fmt.Sprintf("Delete(%q)", d.keys[k]))
	return d.t.Delete(d.arg(k))
}
func (d *bufDrv) Search(k int) (int, bool) {
	defer d.after(fmt.Sprintf("Search(%q)", d.keys[k]))
	return d.t.Search(d.arg(k))
}
func (d *bufDrv) Size() int { return d.t.Size() }
func (d *bufDrv) Tree() any { return d.t }
func (d *bufDrv) Min() (Pair, bool) {
	k, v, ok := d.t.Minimum()
	if !ok {
		return Pair{}, false
	}
	return d.pair(k, v), true
}
func (d *bufDrv) Max() (Pair, bool) {
	k, v, ok := d.t.Maximum()
	if !ok {
		return Pair{}, false
	}
	return d.pair(k, v), true
}
func (d *bufDrv) Seq(q Query) func(yield func(Pair) bool) {
	var s func(func([]byte, int) bool)
	call := q.String()
	switch q.Kind {
	case SeqAll:
		s = d.t.All()
	case SeqBackward:
		s = d.t.Backward()
	case SeqPrefix:
		call = fmt.Sprintf("Prefix(%q)", d.keys[q.A])
		s = d.t.Prefix(d.arg(q.A))
	case SeqRange:
		call = fmt.Sprintf("Range(%q,%q)", d.keys[q.A], d.keys[q.B])
		if d.mode == BufShared || d.mode == BufSharedZero {
			// two live arguments cannot share one buffer: the second one gets its own sub-slice buffer
			saved := d.mode
			a := d.arg(q.A)
			d.mode = BufSub
			b := d.arg(q.B)
			d.mode = saved
			s = d.t.Range(a, b)
		} else {
			s = d.t.Range(d.arg(q.A), d.arg(q.B))
		}
	case SeqTopK:
		s = d.t.TopK(q.N)
	case SeqBottomK:
		s = d.t.BottomK(q.N)
	}
	// the call has returned: the caller's memory must be unchanged, and from now on the caller may
	// reuse its buffers - the sequence must not depend on them (key arguments are not retained by reference)
	d.after(call)
	if d.mode == BufShared || d.mode == BufSharedZero {
		d.Scribble()
	}
	return func(yield func(Pair) bool) {
		s(func(k []byte, v int) bool { return yield(d.pair(k, v)) })
	}
}
func (d *bufDrv) Dump() *art.VerifNode {
	n, ok := art.VerifDump(d.t)
	if !ok {
		panic("VerifDump: not a go-art tree")
	}
	return n
}
func (d *bufDrv) Poison(fill func(int) byte) { art.VerifPoisonStale(d.t, fill) }

// ---- monitor ----

type MonC13 struct{}

func (MonC13) ID() string { return "C13" }

func memFault(x *Exec) *Violation {
	if f, ok := x.D.(memFaulter); ok {
		if s := f.MemFault(); s != "" {
			return viol("caller memory after a call", "key arguments and every byte of their backing arrays unchanged", s)
		}
	}
	if f, ok := x.D.(interface{ CodecFault() string }); ok {
		if s := f.CodecFault(); s != "" {
			return viol("bytes handed to the tree by the key codec", "unchanged (the tree does not write to them)", s)
		}
	}
	return nil
}

func (MonC13) Transition(x *Exec) *Violation {
	x.Stats.Evaluations++
	return memFault(x)
}

func (MonC13) State(x *Exec) *Violation {
	u := x.U
	if f, ok := x.D.(memFaulter); ok {
		f.Scribble()
	}
	// the stored keys belong to the tree: content and results unaffected by the scribbling
	exp := x.Ref.Sorted()
	got, pan := collectSafe(x.D, Query{Kind: SeqAll})
	x.Stats.Evaluations++
	if len(exp) > 0 {
		x.Stats.Nontrivial++
	}
	if pan == "" && !PairsEqual(got, exp) && !(len(got) == 0 && len(exp) == 0) {
		return viol(fmt.Sprintf("All() after the caller overwrote every key buffer it had passed, content %s", x.Ref), PairsString(u, exp), PairsString(u, got))
	}
	for _, q := range u.Probes {
		var v int
		var ok bool
		if p := safely(func() { v, ok = x.D.Search(q) }); p != "" {
			continue
		}
		x.Stats.Evaluations++
		ev, eok := x.Ref.Get(q)
		if ok != eok || (ok && v != ev) {
			return viol(fmt.Sprintf("Search(%s) after the caller overwrote every key buffer it had passed, content %s", u.KeyStr[q], x.Ref), fmt.Sprintf("(%d,%v)", ev, eok), fmt.Sprintf("(%d,%v)", v, ok))
		}
		if v := memFault(x); v != nil {
			return v
		}
	}
	if u.HasPrefix {
		for _, p := range u.Prefixes {
			got, pan := collectSafe(x.D, Query{Kind: SeqPrefix, A: p})
			x.Stats.Evaluations++
			if v := memFault(x); v != nil {
				return v
			}
			if e := PrefixExpected(u, x.Ref, p); pan == "" && !PairsEqual(got, e) && !(len(got) == 0 && len(e) == 0) {
				return viol(fmt.Sprintf("Prefix(%s), content %s", u.KeyStr[p], x.Ref), PairsString(u, e), PairsString(u, got))
			}
		}
	}
	if u.HasRange || u.Kind == "collation" {
		n := min(len(u.Bounds), 6)
		bs := append([]int(nil), u.Bounds[:n]...)
		// the empty key is the open end of a range: always among the bounds tried
		for _, k := range u.Bounds[n:] {
			if k < len(u.OrigBytes) && len(u.OrigBytes[k]) == 0 {
				bs[len(bs)-1] = k
			}
		}
		for _, a := range bs {
			for _, b := range bs {
				got, pan := collectSafe(x.D, Query{Kind: SeqRange, A: a, B: b})
				x.Stats.Evaluations++
				if v := memFault(x); v != nil {
					return v
				}
				if !u.HasRange {
					// collation Range has no specified result, but whatever it yields must not depend on
					// what the caller does to the argument buffers after the call returned
					if kd, ok := x.D.(interface{ SetKeep(bool) }); ok && pan == "" {
						kd.SetKeep(true)
						ref, rp := collectSafe(x.D, Query{Kind: SeqRange, A: a, B: b})
						kd.SetKeep(false)
						if rp == "" && !(len(ref) == 0 && len(got) == 0) && !PairsEqual(got, ref) {
							return viol(fmt.Sprintf("Range(%s,%s) iterated after the caller reused the argument buffers, content %s", u.KeyStr[a], u.KeyStr[b], x.Ref),
								"the same pairs as with untouched argument buffers: "+PairsString(u, ref), PairsString(u, got))
						}
					}
					continue
				}
				if e, skip := RangeExpected(u, x.Ref, a, b); !skip && pan == "" && !PairsEqual(got, e) && !(len(got) == 0 && len(e) == 0) {
					return viol(fmt.Sprintf("Range(%s,%s), content %s", u.KeyStr[a], u.KeyStr[b], x.Ref), PairsString(u, e), PairsString(u, got))
				}
			}
		}
	}
	// deletes of absent keys also take key arguments
	for _, k := range u.DelExtra {
		if _, present := x.Ref.Get(k); !present {
			safely(func() { x.D.Delete(k) })
			if v := memFault(x); v != nil {
				return v
			}
		}
	}
	// leaves hold the expected bytes
	if !u.LeafFromDump && u.TKey != nil {
		var dump *art.VerifNode
		if p := safely(func() { dump = x.D.Dump() }); p == "" {
			if err := CheckStructure(u, dump, x.Ref, x.D.Size()); err != nil {
				return viol("stored keys after the caller overwrote its buffers, content "+x.Ref.String(), "leaves hold the inserted bytes", err.Error())
			}
		}
	}
	return nil
}

// ---- universes ----

func c13Universe(base *Universe, mode BufMode, mk func() art.Tree[[]byte, int]) *Universe {
	u := *base
	u.Name = base.Name + "/buf-" + mode.String()
	bk := base.OrigBytes
	u.New = func() Driver { return NewBufDriver(mk(), bk, mode) }
	return &u
}

// C13Registry: byte-slice trees in every buffer mode, plus compound trees with an arena codec.
func C13Registry(tier string) []UniverseDef {
	var out []UniverseDef
	P := func(n int) string { return rep('p', n) }
	specs := []AlphaSpec{
		{Name: "SHORT6", Free: []string{"", "a", "ab", "abc", "b\xff", "\x80"}, Probes: []string{"c", "abd"}},
		{Name: "LONG6", Free: []string{P(12) + "x", P(12) + "y", P(11) + "z", P(5) + "q", P(12) + "x" + P(11) + "1", "hello"}, Probes: []string{P(12), P(13), "hello world"}},
		{Name: "NUL5", Free: []string{"a\x00b", "a\x00c", "b", "\x00\x01", "a\x01"}, Probes: []string{"a\x00"}},
	}
	for _, ls := range LengthSpecs() {
		ls.Free = ls.Free[:5]
		specs = append(specs, ls)
	}
	if tier == "thorough" {
		specs = append(specs, AlphaSpec{Name: "SHORT8", Free: []string{"", "a", "b", "ab", "abc", "abd", "b\xff", "\x80"}, Probes: []string{"c"}},
			FanUniverse(FanSpec{Name: "FAN16@15", Hold: 15, Present: 3, Absent: 3}), FanUniverse(FanSpec{Name: "FAN48@14", Hold: 14, Extra: 3, Present: 2, Absent: 2, Path: P(12)}))
	}
	for _, sp := range specs {
		for _, mode := range AllBufModes {
			sp, mode := sp, mode
			name := "alpha[[]byte]/" + sp.Name + "/buf-" + mode.String()
			out = append(out, UniverseDef{Name: name, Build: func() *Universe {
				base := NewAlphaUniverse(sp, "[]byte")
				return c13Universe(base, mode, func() art.Tree[[]byte, int] { return art.NewAlphaSortedTree[[]byte, int]() })
			}})
		}
	}
	und := Collators()[0]
	csp := []CollSpec{
		{Name: "CASEACC6", Prefix: true, Free: []string{"a", "A", "ab", "aB", "b", "abc"}, Probes: []string{"B", ""}, Prefixes: []string{"a", "ab"}}, // "" as a bound: open-ended ranges
		{Name: "LONG5", Prefix: true, Free: []string{P(16) + "a", P(16) + "A", P(16) + "b", P(16) + "ab", "z"}, Probes: []string{P(16), ""}, Prefixes: []string{P(16), P(10)}},
	}
	for _, sp := range csp {
		for _, mode := range AllBufModes {
			sp, mode := sp, mode
			name := fmt.Sprintf("collation[[]byte,und]/%s/buf-%s", sp.Name, mode)
			out = append(out, UniverseDef{Name: name, Build: func() *Universe {
				base := NewCollUniverse(sp, und, "[]byte", false)
				return c13Universe(base, mode, func() art.Tree[[]byte, int] { return art.NewCollationSortedTree[[]byte, int]() })
			}})
		}
	}
	out = append(out, c13CompoundDefs()...)
	return out
}

// ---- compound: the bytes handed to the tree are the codec's; only "does not write to them" applies ----

type arenaCodec struct {
	inner  SchemaCodec
	issued [][2][]byte // array, snapshot
}

func (c *arenaCodec) Transform(t Tuple) ([]byte, []byte) {
	_, b := c.inner.Transform(t)
	arr := make([]byte, len(b)+16)
	for j := range arr {
		arr[j] = 0xB0 | byte(j&0xf)
	}
	copy(arr[8:], b)
	s := arr[8 : 8+len(b)] // spare capacity holds codec-owned data
	c.issued = append(c.issued, [2][]byte{arr, append([]byte(nil), arr...)})
	return s, s
}
func (c *arenaCodec) Restore(b []byte) Tuple { return c.inner.Restore(b) }

type codecDrv struct {
	Driver
	c *arenaCodec
}

func (d *codecDrv) CodecFault() string {
	for _, is := range d.c.issued {
		if !bytes.Equal(is[0], is[1]) {
			return fmt.Sprintf("codec output (with its sentinel frame) changed from %x to %x", is[1], is[0])
		}
	}
	return ""
}

func c13CompoundDefs() []UniverseDef {
	var out []UniverseDef
	long := Schema{Fields: []FieldType{FU64, FU64}, Str: true}
	mk := func(a, b uint64, s string) Tuple {
		return Tuple{N: []Num{{T: FU64, U: a}, {T: FU64, U: b}}, S: s}
	}
	out = append(out, UniverseDef{Name: "compound[u64,u64,str]/ARENA", Build: func() *Universe {
		free := []Tuple{mk(7, 0x0101010101010100, "x"), mk(7, 0x0101010101010101, "x"), mk(7, 0x0101010101010100, "y"), mk(8, 0, ""), mk(7, 0x0101010101010100, ""), mk(7, 0x0101010101020100, "q")}
		probes := []Tuple{mk(7, 0x0101010101010102, "x"), mk(6, 0, "")}
		u := NewCompoundUniverse("ARENA", long, free, probes, 1)
		keys := append(append([]Tuple{}, free...), probes...)
		spec := &KeySpec[Tuple]{Keys: keys, Ident: tupleIdent, Str: func(t Tuple) string { return t.String() }}
		index, _ := BuildIndex(spec)
		u.New = func() Driver {
			c := &arenaCodec{inner: SchemaCodec{S: long}}
			return &codecDrv{Driver: NewDriver[Tuple](art.NewCompoundTree[Tuple, int](c), spec, index), c: c}
		}
		return u
	}})
	return out
}
