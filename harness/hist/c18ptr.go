package hist

import (
	"bytes"
	"encoding/binary"
	"fmt"
	"math/bits"
	"runtime"
	"runtime/debug"
	"sort"
	"time"
	"unsafe"

	art "github.com/Clement-Jean/go-art"
)

// C18, "address-shaped keys": key bytes are data, whatever they look like. The keys of this job are
// chosen so that their encoded bytes, read as a machine word, are addresses the collector rejects when it
// finds them in a slot it scans: addresses inside spans that were freed just before (large objects dropped
// and collected), the runtime's dead-pointer pattern, small integers and the top of the address space. A
// tree that keeps key bytes in pointer-typed memory dies in the next collection ("found bad pointer in Go
// heap"); the job process dying is the violation. Results are also compared with a map.

func freedAddresses() []uint64 {
	var out []uint64
	for round := 0; round < 4; round++ {
		bufs := make([][]byte, 6)
		for i := range bufs {
			bufs[i] = make([]byte, (1+i)<<20)
			bufs[i][0] = 1
		}
		for i, b := range bufs {
			base := uint64(uintptr(unsafe.Pointer(&b[0])))
			out = append(out, base, base+8, base+uint64(len(b)/2), base+uint64(len(b))-8, base+4096*uint64(i+1)+24)
		}
		bufs = nil
		runtime.GC()
		runtime.GC()
		debug.FreeOSMemory()
	}
	return out
}

// PtrKeyJobs names the jobs.
func PtrKeyJobs() []string {
	return []string{"ptrkeys/unsigned[uint64]", "ptrkeys/signed[int64]", "ptrkeys/float[float64]", "ptrkeys/unsigned[uint]", "ptrkeys/alpha[string]", "ptrkeys/alpha[[]byte]", "ptrkeys/compound[u64]", "ptrkeys/collation[string]"}
}

type ptrTree struct {
	insert func(w uint64, v int) bool // false: this word has no key of the kind
	search func(w uint64) (int, bool)
	delete func(w uint64) bool
	all    func() int
}

// leWord: the key bytes b (up to 8) as the little-endian word a collector would load from them.
func bytesOfWord(w uint64) []byte {
	var b [8]byte
	binary.LittleEndian.PutUint64(b[:], w)
	return b[:]
}

func ptrTreeFor(job string) *ptrTree {
	switch job {
	case "ptrkeys/unsigned[uint64]":
		t := art.NewUnsignedBinaryTree[uint64, int]()
		k := func(w uint64) uint64 { return bits.ReverseBytes64(w) } // big-endian encoding of k has the bytes of w
		return &ptrTree{func(w uint64, v int) bool { t.Insert(k(w), v); return true }, func(w uint64) (int, bool) { return t.Search(k(w)) }, func(w uint64) bool { return t.Delete(k(w)) },
			func() int { n := 0; t.All()(func(uint64, int) bool { n++; return true }); return n }}
	case "ptrkeys/unsigned[uint]":
		t := art.NewUnsignedBinaryTree[uint, int]()
		k := func(w uint64) uint { return uint(bits.ReverseBytes64(w)) }
		return &ptrTree{func(w uint64, v int) bool { t.Insert(k(w), v); return true }, func(w uint64) (int, bool) { return t.Search(k(w)) }, func(w uint64) bool { return t.Delete(k(w)) },
			func() int { n := 0; t.All()(func(uint, int) bool { n++; return true }); return n }}
	case "ptrkeys/signed[int64]":
		t := art.NewSignedBinaryTree[int64, int]()
		k := func(w uint64) (int64, bool) {
			x := art.SignedBinaryKey[int64]{}.Restore(bytesOfWord(w))
			_, e := art.SignedBinaryKey[int64]{}.Transform(x)
			return x, bytes.Equal(e, bytesOfWord(w))
		}
		return &ptrTree{func(w uint64, v int) bool {
			x, ok := k(w)
			if ok {
				t.Insert(x, v)
			}
			return ok
		}, func(w uint64) (int, bool) { x, _ := k(w); return t.Search(x) }, func(w uint64) bool { x, _ := k(w); return t.Delete(x) },
			func() int { n := 0; t.All()(func(int64, int) bool { n++; return true }); return n }}
	case "ptrkeys/float[float64]":
		t := art.NewFloatBinaryTree[float64, int]()
		k := func(w uint64) (float64, bool) {
			x := art.FloatBinaryKey[float64]{}.Restore(bytesOfWord(w))
			_, e := art.FloatBinaryKey[float64]{}.Transform(x)
			return x, bytes.Equal(e, bytesOfWord(w)) && x == x
		}
		return &ptrTree{func(w uint64, v int) bool {
			x, ok := k(w)
			if ok {
				t.Insert(x, v)
			}
			return ok
		}, func(w uint64) (int, bool) { x, _ := k(w); return t.Search(x) }, func(w uint64) bool { x, _ := k(w); return t.Delete(x) },
			func() int { n := 0; t.All()(func(float64, int) bool { n++; return true }); return n }}
	case "ptrkeys/alpha[string]", "ptrkeys/alpha[[]byte]", "ptrkeys/collation[string]":
		// 7 key bytes + the terminator fill one word when the word's top byte is zero (every user-space address)
		str := func(w uint64) (string, bool) { b := bytesOfWord(w); return string(b[:7]), b[7] == 0 }
		if job == "ptrkeys/alpha[string]" {
			t := art.NewAlphaSortedTree[string, int]()
			return &ptrTree{func(w uint64, v int) bool {
				s, ok := str(w)
				if ok {
					t.Insert(s, v)
				}
				return ok
			}, func(w uint64) (int, bool) { s, _ := str(w); return t.Search(s) }, func(w uint64) bool { s, _ := str(w); return t.Delete(s) },
				func() int { n := 0; t.All()(func(string, int) bool { n++; return true }); return n }}
		}
		if job == "ptrkeys/collation[string]" {
			// the ORIGINAL key bytes are what a collation leaf keeps next to its sort key; words that are valid UTF-8 text only
			t := art.NewCollationSortedTree[string, int]()
			ok8 := func(w uint64) (string, bool) {
				b := bytesOfWord(w)
				for _, c := range b {
					if c == 0 || c >= 0x80 || c < 0x20 {
						return "", false
					}
				}
				return string(b), true
			}
			return &ptrTree{func(w uint64, v int) bool {
				s, ok := ok8(w)
				if ok {
					t.Insert(s, v)
				}
				return ok
			}, func(w uint64) (int, bool) { s, _ := ok8(w); return t.Search(s) }, func(w uint64) bool { s, _ := ok8(w); return t.Delete(s) },
				func() int { n := 0; t.All()(func(string, int) bool { n++; return true }); return n }}
		}
		t := art.NewAlphaSortedTree[[]byte, int]()
		return &ptrTree{func(w uint64, v int) bool {
			s, ok := str(w)
			if ok {
				t.Insert([]byte(s), v)
			}
			return ok
		}, func(w uint64) (int, bool) { s, _ := str(w); return t.Search([]byte(s)) }, func(w uint64) bool { s, _ := str(w); return t.Delete([]byte(s)) },
			func() int { n := 0; t.All()(func([]byte, int) bool { n++; return true }); return n }}
	case "ptrkeys/compound[u64]":
		s := Schema{Fields: []FieldType{FU64}}
		t := art.NewCompoundTree[Tuple, int](SchemaCodec{S: s})
		k := func(w uint64) Tuple { return Tuple{N: []Num{{T: FU64, U: bits.ReverseBytes64(w)}}} }
		return &ptrTree{func(w uint64, v int) bool { t.Insert(k(w), v); return true }, func(w uint64) (int, bool) { return t.Search(k(w)) }, func(w uint64) bool { return t.Delete(k(w)) },
			func() int { n := 0; t.All()(func(Tuple, int) bool { n++; return true }); return n }}
	}
	return nil
}

// ExplorePtrKeys runs one address-shaped-keys job.
func ExplorePtrKeys(job, tier string, deadline time.Duration) *Result {
	start := time.Now()
	res := &Result{Universe: job, Property: "C18"}
	st := &res.Stats
	st.Exhaustive = true
	defer func() { st.WallS = time.Since(start).Seconds() }()
	t := ptrTreeFor(job)
	if t == nil {
		res.HarnessErr = "no job " + job
		return res
	}
	fail := func(what, exp, obs string) *Result {
		v := viol(what, exp, obs)
		v.Property, v.Universe, v.Tier = "C18", job, tier
		v.Tags = []string{"crash"}
		res.Violations = append(res.Violations, v)
		st.Exhaustive = false
		return res
	}
	rounds := 3
	if tier == "thorough" {
		rounds = 12
	}
	for round := 0; round < rounds; round++ {
		words := freedAddresses()
		words = append(words, 0xdeaddeaddeaddead, 0xdeaddeaddeaddeae, 1, 8, 4096, 0x00007ffffffff000, 0xffffffffffffffff, 0xfffffffffffffff8, 0x000000c000000000, 0x000000c000012340)
		if job == "ptrkeys/collation[string]" {
			words = append(words, 0x3031323334353637, 0x4142434445464748, 0x6162636465666768)
		}
		sort.Slice(words, func(a, b int) bool { return words[a] < words[b] })
		model := map[uint64]int{}
		for i, w := range words {
			if t.insert(w, i+1) {
				model[w] = i + 1
			}
			if i%7 == 0 {
				runtime.GC()
			}
		}
		runtime.GC()
		runtime.GC()
		check := func(phase string) *Result {
			for w, v := range model {
				st.Evaluations++
				st.Nontrivial++
				if got, ok := t.search(w); !ok || got != v {
					return fail(fmt.Sprintf("Search of the key whose bytes read as word %#x, %s", w, phase), fmt.Sprintf("(%d,true)", v), fmt.Sprintf("(%d,%v)", got, ok))
				}
			}
			if n := t.all(); n != len(model) {
				return fail("All() over address-shaped keys, "+phase, fmt.Sprint(len(model), " pairs"), fmt.Sprint(n, " pairs"))
			}
			return nil
		}
		if r := check("after insertion and two collections"); r != nil {
			return r
		}
		i := 0
		for w := range model {
			if i%2 == 0 {
				if !t.delete(w) {
					return fail(fmt.Sprintf("Delete of the key whose bytes read as word %#x", w), "true", "false")
				}
				delete(model, w)
			}
			i++
		}
		runtime.GC()
		runtime.GC()
		if r := check("after deleting half of them and two more collections"); r != nil {
			return r
		}
		for w := range model {
			t.delete(w)
			delete(model, w)
		}
		runtime.GC()
		if deadline > 0 && time.Since(start) > deadline {
			st.Exhaustive = false
			st.CapHit = "deadline"
			return res
		}
	}
	st.Samples = append(st.Samples, fmt.Sprintf("%s: %d rounds; keys whose bytes read as addresses inside just-freed spans, the dead-pointer pattern, tiny and top-of-space addresses; collections between operations", job, rounds))
	return res
}
