package hist

import (
	"fmt"
	"runtime"
	"runtime/debug"
	"time"

	art "github.com/Clement-Jean/go-art"
)

// C17, sliding-window clause: insert/delete churn at a bounded size over an
// unbounded stream of FRESH keys (window of two groups, and window zero: the
// tree is emptied after every group). Every (group shape, deletion order) pair of
// the listed shapes is pumped; a structure that leaves something behind per
// key group (an unmerged node, a pinned ancestor) grows without bound here even
// though churn over the same keys stays flat.

const (
	churnGroups = 20000
	churnWarm   = 2000
)

type churnShape struct {
	name string
	keys func(g int) []string // keys of group g (distinct across groups)
}

func churnShapes() []churnShape {
	stem := func(g int) string { return fmt.Sprintf("g%07d-shared-prefix", g) }
	fan := func(n int) func(g int) []string {
		return func(g int) []string {
			var out []string
			for j := 0; j < n; j++ {
				// printable, pairwise distinguishable for every collator (control bytes are ignorable in collation)
				const alphabet = "0123456789ABCDEFGHIJKLMNOPQRSTUVWXYZabcdefghijklmnopqrstuvwxyz"
				out = append(out, stem(g)+alphabet[j:j+1]+"t")
			}
			return out
		}
	}
	return []churnShape{
		{"leaf+long-subtree", func(g int) []string {
			return []string{stem(g) + "/sibling", stem(g) + "/segment-with-a-long-path/alpha", stem(g) + "/segment-with-a-long-path/beta"}
		}},
		{"two-level", func(g int) []string {
			return []string{stem(g) + "a1", stem(g) + "a2", stem(g) + "b1", stem(g) + "b2"}
		}},
		{"short", func(g int) []string { return []string{fmt.Sprintf("k%da", g), fmt.Sprintf("k%db", g)} }},
		{"fan5", fan(5)},
		{"fan17", fan(17)},
		{"fan49", fan(49)},
	}
}

// orders returns the deletion orders tried for a group of n keys: all permutations for n <= 4, else four fixed ones.
func orders(n int) [][]int {
	if n <= 4 {
		var out [][]int
		var rec func(cur []int, used []bool)
		rec = func(cur []int, used []bool) {
			if len(cur) == n {
				out = append(out, append([]int(nil), cur...))
				return
			}
			for i := 0; i < n; i++ {
				if !used[i] {
					used[i] = true
					rec(append(cur, i), used)
					used[i] = false
				}
			}
		}
		rec(nil, make([]bool, n))
		return out
	}
	asc, desc, mid, rev := make([]int, n), make([]int, n), make([]int, 0, n), make([]int, n)
	for i := 0; i < n; i++ {
		asc[i], desc[i] = i, n-1-i
		rev[i] = (i * 7) % n
	}
	for i := 0; i < n; i++ {
		if i%2 == 0 {
			mid = append(mid, n/2+i/2)
		} else {
			mid = append(mid, n/2-1-i/2)
		}
	}
	// rev is a permutation only when gcd(7,n)=1; fall back to desc otherwise
	seen := map[int]bool{}
	for _, v := range rev {
		seen[v] = true
	}
	out := [][]int{asc, desc}
	if len(mid) == n {
		ok := true
		s := map[int]bool{}
		for _, v := range mid {
			if v < 0 || v >= n || s[v] {
				ok = false
			}
			s[v] = true
		}
		if ok {
			out = append(out, mid)
		}
	}
	if len(seen) == n {
		out = append(out, rev)
	}
	return out
}

type churnTree struct {
	name   string
	insert func(k string)
	delete func(k string) bool
	size   func() int
	limit  int64
}

func churnTrees() []func() churnTree {
	return []func() churnTree{
		func() churnTree {
			t := art.NewAlphaSortedTree[string, int]()
			return churnTree{"alpha[string]", func(k string) { t.Insert(k, 1) }, func(k string) bool { return t.Delete(k) }, t.Size, c17PerTree}
		},
		func() churnTree {
			t := art.NewAlphaSortedTree[[]byte, int]()
			return churnTree{"alpha[[]byte]", func(k string) { t.Insert([]byte(k), 1) }, func(k string) bool { return t.Delete([]byte(k)) }, t.Size, c17PerTree}
		},
		func() churnTree {
			t := art.NewCollationSortedTree[string, int]()
			return churnTree{"collation[string]", func(k string) { t.Insert(k, 1) }, func(k string) bool { return t.Delete(k) }, t.Size, c17PerTreeCo}
		},
		func() churnTree {
			s := Schema{Fields: []FieldType{FU64}, Str: true}
			t := art.NewCompoundTree[Tuple, int](SchemaCodec{S: s})
			mk := func(k string) Tuple { return Tuple{N: []Num{{T: FU64, U: 7}}, S: k} }
			return churnTree{"compound[u64,str]", func(k string) { t.Insert(mk(k), 1) }, func(k string) bool { return t.Delete(mk(k)) }, t.Size, c17PerTree}
		},
	}
}

// numeric churn: groups of keys g<<8|b sharing their upper bytes, b from a list that starts with 0x00
func numericShapes() []churnShape {
	mk := func(n int) func(g int) []string {
		return func(g int) []string {
			var out []string
			for j := 0; j < n; j++ {
				b := j * 5 // 0x00, 0x05, ...: the smallest branch byte of every group is 0x00
				if b > 255 {
					b = 255 - j
				}
				out = append(out, fmt.Sprintf("%d", uint64(g+1)<<8|uint64(b)))
			}
			return out
		}
	}
	return []churnShape{{"num-fan2", mk(2)}, {"num-fan4", mk(4)}, {"num-fan5", mk(5)}, {"num-fan17", mk(17)}, {"num-fan49", mk(49)}}
}

func parseU(k string) uint64 {
	var v uint64
	fmt.Sscan(k, &v)
	return v
}

func numericChurnTrees() []func() churnTree {
	return []func() churnTree{
		func() churnTree {
			t := art.NewUnsignedBinaryTree[uint32, int]()
			return churnTree{"unsigned[uint32]", func(k string) { t.Insert(uint32(parseU(k)), 1) }, func(k string) bool { return t.Delete(uint32(parseU(k))) }, t.Size, c17PerTree}
		},
		func() churnTree {
			t := art.NewSignedBinaryTree[int64, int]()
			return churnTree{"signed[int64]", func(k string) { t.Insert(int64(parseU(k))-1<<40, 1) }, func(k string) bool { return t.Delete(int64(parseU(k)) - 1<<40) }, t.Size, c17PerTree}
		},
	}
}

// ChurnJobs names the sliding-window jobs.
func ChurnJobs() []string {
	var out []string
	for _, mk := range churnTrees() {
		out = append(out, "churn/"+mk().name)
	}
	for _, mk := range numericChurnTrees() {
		out = append(out, "churn/"+mk().name)
	}
	return out
}

// ExploreChurn runs every (shape, deletion order) pair for one tree kind.
func ExploreChurn(job, tier string, deadline time.Duration) *Result {
	start := time.Now()
	debug.SetGCPercent(100)
	runtime.GOMAXPROCS(1)
	res := &Result{Universe: job, Property: "C17"}
	st := &res.Stats
	st.Exhaustive = true
	defer func() { st.WallS = time.Since(start).Seconds() }()
	var mkTree func() churnTree
	for _, mk := range churnTrees() {
		if "churn/"+mk().name == job {
			mkTree = mk
		}
	}
	shapes := churnShapes()
	for _, mk := range numericChurnTrees() {
		if "churn/"+mk().name == job {
			mkTree = mk
			shapes = numericShapes()
		}
	}
	if mkTree == nil {
		res.HarnessErr = "no churn job " + job
		return res
	}
	maxGrowth := int64(0)
	churnGroups := churnGroups
	if tier == "thorough" {
		churnGroups *= 5 // same threshold: a leak of two thirds of a byte per key group crosses it
	}
	run := func(sh churnShape, ord []int, win int) *Violation {
		t := mkTree()
		step := func(g int) string {
			for _, k := range sh.keys(g) {
				t.insert(k)
			}
			if g >= win {
				old := sh.keys(g - win)
				for _, i := range ord {
					if !t.delete(old[i]) {
						return fmt.Sprintf("Delete(%q) = false for a stored key", old[i])
					}
				}
			}
			return ""
		}
		for g := 0; g < churnWarm; g++ {
			if msg := step(g); msg != "" {
				return nil // owned by C01
			}
		}
		before := liveHeap()
		for g := churnWarm; g < churnWarm+churnGroups; g++ {
			if msg := step(g); msg != "" {
				return nil
			}
		}
		after := liveHeap()
		g := after - before
		if g > maxGrowth {
			maxGrowth = g
		}
		what := fmt.Sprintf("%s: sliding window of %d groups of shape %q (e.g. %q), each group deleted in order %v", t.name, win, sh.name, sh.keys(0), ord)
		if win == 0 {
			what = fmt.Sprintf("%s: fill-and-empty cycles with fresh keys of shape %q (e.g. %q), deleted in order %v: the tree is empty after every cycle", t.name, sh.name, sh.keys(0), ord)
		}
		if g > c17Threshold {
			return viol("live heap growth over "+fmt.Sprint(churnGroups)+" window steps at bounded size; "+what, fmt.Sprintf("<= %d bytes", c17Threshold), fmt.Sprintf("%d bytes (%.1f per key group)", g, float64(g)/float64(churnGroups)))
		}
		// empty the tree: only a small constant may stay
		last := churnWarm + churnGroups
		for gg := last - win; gg < last; gg++ {
			old := sh.keys(gg)
			for _, i := range ord {
				t.delete(old[i])
			}
		}
		if t.size() != 0 {
			return nil // owned by C06
		}
		emptied := liveHeap()
		runtime.KeepAlive(t)
		if r := emptied - before; r > t.limit+c17Threshold/4 {
			return viol("heap retained after the window was emptied; "+what, fmt.Sprintf("<= %d bytes more than at bounded size", t.limit+c17Threshold/4), fmt.Sprintf("%d bytes", r))
		}
		return nil
	}
	for _, sh := range shapes {
		n := len(sh.keys(0))
		for _, ord := range orders(n) {
			if deadline > 0 && time.Since(start) > deadline {
				st.Exhaustive = false
				st.CapHit = "deadline " + deadline.String()
				return res
			}
			st.Evaluations++
			st.Nontrivial++
			v := run(sh, ord, 2)
			if v == nil {
				// the tree empties after every group (the delete path of the last key, the emptied tree's leftovers)
				st.Evaluations++
				st.Nontrivial++
				if v = run(sh, ord, 0); v != nil {
					v.Tags = append(v.Tags, "window-0")
				}
			}
			if v != nil {
				win := 2
				if len(v.Tags) > 0 {
					win = 0
				}
				if v2 := run(sh, ord, win); v2 == nil {
					res.HarnessErr = "heap measurement did not reproduce: " + v.String()
					return res
				}
				v.Property, v.Universe, v.Tier = "C17", job, tier
				v.Tags = []string{"crash"} // replay = re-run the job
				res.Violations = append(res.Violations, v)
				st.Exhaustive = false
				return res
			}
		}
	}
	st.Extra = map[string]float64{"max_growth_bytes_sliding_window": float64(maxGrowth)}
	st.Samples = append(st.Samples, fmt.Sprintf("%s: every (group shape, deletion order, window 2|0) triple of %d shapes, %d window steps each, e.g. shape %q = %q", job, len(shapes), churnGroups, shapes[0].name, shapes[0].keys(0)))
	return res
}
