package hist

import (
	"fmt"
	"math"
	"math/bits"
	"sort"
	"strings"

	art "github.com/Clement-Jean/go-art"
)

// FieldType enumerates the library's numeric key types.
type FieldType int

const (
	FU8 FieldType = iota
	FU16
	FU32
	FU64
	FUint
	FI8
	FI16
	FI32
	FI64
	FInt
	FF32
	FF64
	nFieldTypes
)

var fieldNames = [...]string{"u8", "u16", "u32", "u64", "uint", "i8", "i16", "i32", "i64", "int", "f32", "f64"}

func (f FieldType) width() int {
	switch f {
	case FU8, FI8:
		return 1
	case FU16, FI16:
		return 2
	case FU32, FI32, FF32:
		return 4
	case FUint, FInt:
		return bits.UintSize / 8
	}
	return 8
}

// Num is one numeric field value.
type Num struct {
	T FieldType
	U uint64
	I int64
	F float64
}

func (n Num) String() string {
	switch {
	case n.T <= FUint:
		return fmt.Sprintf("%#x", n.U)
	case n.T <= FInt:
		return fmt.Sprintf("%d", n.I)
	}
	if n.F == 0 && math.Signbit(n.F) {
		return "-0"
	}
	return fmt.Sprintf("%g", n.F)
}

// Schema is a compound key layout: numeric fields, optionally a terminated string.
type Schema struct {
	Fields []FieldType
	Str    bool
	// Raw: the string follows without a terminator; the universe keeps its keys prefix-free itself
	// (a preceding numeric field holds the length), as a length-prefixed user codec would.
	Raw bool
}

func (s Schema) String() string {
	parts := make([]string, len(s.Fields))
	for i, f := range s.Fields {
		parts[i] = fieldNames[f]
	}
	if s.Str {
		parts = append(parts, "str")
	}
	if s.Raw {
		parts = append(parts, "raw")
	}
	return strings.Join(parts, ",")
}

// Tuple is the compound key type handed to the tree.
type Tuple struct {
	N []Num
	S string
}

func (t Tuple) String() string {
	parts := make([]string, len(t.N))
	for i, n := range t.N {
		parts[i] = n.String()
	}
	if t.S != "" || len(t.N) == 0 {
		parts = append(parts, fmt.Sprintf("%q", t.S))
	}
	return "(" + strings.Join(parts, ",") + ")"
}

// SchemaCodec concatenates the library's own fixed-width encodings (as the
// repository's compound example does) followed by the string and a 0x00 terminator.
type SchemaCodec struct{ S Schema }

func encodeNum(n Num) []byte {
	var b []byte
	switch n.T {
	case FU8:
		_, b = art.UnsignedBinaryKey[uint8]{}.Transform(uint8(n.U))
	case FU16:
		_, b = art.UnsignedBinaryKey[uint16]{}.Transform(uint16(n.U))
	case FU32:
		_, b = art.UnsignedBinaryKey[uint32]{}.Transform(uint32(n.U))
	case FU64:
		_, b = art.UnsignedBinaryKey[uint64]{}.Transform(n.U)
	case FUint:
		_, b = art.UnsignedBinaryKey[uint]{}.Transform(uint(n.U))
	case FI8:
		_, b = art.SignedBinaryKey[int8]{}.Transform(int8(n.I))
	case FI16:
		_, b = art.SignedBinaryKey[int16]{}.Transform(int16(n.I))
	case FI32:
		_, b = art.SignedBinaryKey[int32]{}.Transform(int32(n.I))
	case FI64:
		_, b = art.SignedBinaryKey[int64]{}.Transform(n.I)
	case FInt:
		_, b = art.SignedBinaryKey[int]{}.Transform(int(n.I))
	case FF32:
		_, b = art.FloatBinaryKey[float32]{}.Transform(float32(n.F))
	case FF64:
		_, b = art.FloatBinaryKey[float64]{}.Transform(n.F)
	}
	return b
}

func decodeNum(t FieldType, b []byte) Num {
	n := Num{T: t}
	switch t {
	case FU8:
		n.U = uint64(art.UnsignedBinaryKey[uint8]{}.Restore(b))
	case FU16:
		n.U = uint64(art.UnsignedBinaryKey[uint16]{}.Restore(b))
	case FU32:
		n.U = uint64(art.UnsignedBinaryKey[uint32]{}.Restore(b))
	case FU64:
		n.U = art.UnsignedBinaryKey[uint64]{}.Restore(b)
	case FUint:
		n.U = uint64(art.UnsignedBinaryKey[uint]{}.Restore(b))
	case FI8:
		n.I = int64(art.SignedBinaryKey[int8]{}.Restore(b))
	case FI16:
		n.I = int64(art.SignedBinaryKey[int16]{}.Restore(b))
	case FI32:
		n.I = int64(art.SignedBinaryKey[int32]{}.Restore(b))
	case FI64:
		n.I = art.SignedBinaryKey[int64]{}.Restore(b)
	case FInt:
		n.I = int64(art.SignedBinaryKey[int]{}.Restore(b))
	case FF32:
		n.F = float64(art.FloatBinaryKey[float32]{}.Restore(b))
	case FF64:
		n.F = art.FloatBinaryKey[float64]{}.Restore(b)
	}
	return n
}

func (c SchemaCodec) Transform(t Tuple) ([]byte, []byte) {
	var b []byte
	for _, n := range t.N {
		b = append(b, encodeNum(n)...)
	}
	if c.S.Str {
		b = append(b, t.S...)
		b = append(b, 0)
	}
	if c.S.Raw {
		b = append(b, t.S...)
	}
	// an exactly sized allocation (no slack from append growth behind the key)
	out := make([]byte, len(b))
	copy(out, b)
	return out, out
}

func (c SchemaCodec) Restore(b []byte) Tuple {
	var t Tuple
	off := 0
	for _, f := range c.S.Fields {
		w := f.width()
		t.N = append(t.N, decodeNum(f, b[off:off+w]))
		off += w
	}
	if c.S.Str {
		t.S = string(b[off : len(b)-1])
	}
	if c.S.Raw {
		t.S = string(b[off:])
	}
	return t
}

// compareNum is the oracle's per-field order (never uses the encoders).
func compareNum(a, b Num) int {
	switch {
	case a.T <= FUint:
		if a.U < b.U {
			return -1
		} else if a.U > b.U {
			return 1
		}
		return 0
	case a.T <= FInt:
		if a.I < b.I {
			return -1
		} else if a.I > b.I {
			return 1
		}
		return 0
	}
	if floatLess(a.F, b.F) {
		return -1
	} else if floatLess(b.F, a.F) {
		return 1
	}
	return 0
}

func compareTuple(a, b Tuple) int {
	for i := range a.N {
		if c := compareNum(a.N[i], b.N[i]); c != 0 {
			return c
		}
	}
	return strings.Compare(a.S, b.S)
}

func tupleIdent(t Tuple) string {
	var sb strings.Builder
	for _, n := range t.N {
		switch {
		case n.T <= FUint:
			fmt.Fprintf(&sb, "u%x;", n.U)
		case n.T <= FInt:
			fmt.Fprintf(&sb, "i%d;", n.I)
		default:
			f := n.F
			if n.T == FF32 {
				f = float64(float32(f))
			}
			sb.WriteString("f" + floatIdent(f) + ";")
		}
	}
	sb.WriteString("s" + t.S)
	return sb.String()
}

func fieldValues(t FieldType) []Num {
	u := func(vs ...uint64) []Num {
		out := make([]Num, len(vs))
		for i, v := range vs {
			out[i] = Num{T: t, U: v}
		}
		return out
	}
	s := func(vs ...int64) []Num {
		out := make([]Num, len(vs))
		for i, v := range vs {
			out[i] = Num{T: t, I: v}
		}
		return out
	}
	f := func(vs ...float64) []Num {
		out := make([]Num, len(vs))
		for i, v := range vs {
			out[i] = Num{T: t, F: v}
		}
		return out
	}
	switch t {
	case FU8:
		return u(0, 0x80, 0xff)
	case FU16:
		return u(0, 0x100, 0xffff)
	case FU32:
		return u(0, 0x10000, math.MaxUint32)
	case FU64:
		return u(0, 1<<32, math.MaxUint64)
	case FUint:
		return u(0, 256, math.MaxUint)
	case FI8:
		return s(math.MinInt8, -1, math.MaxInt8)
	case FI16:
		return s(math.MinInt16, 0, 256)
	case FI32:
		return s(-65536, 0, math.MaxInt32)
	case FI64:
		return s(math.MinInt64, -1, math.MaxInt64)
	case FInt:
		return s(math.MinInt, 0, math.MaxInt)
	case FF32:
		return f(-1.5, math.Copysign(0, -1), 0)
	case FF64:
		return f(math.Inf(-1), 0, 1e300)
	}
	return nil
}

// schemaTuples picks up to n tuples of the schema's boundary-value product, evenly spaced.
func schemaTuples(s Schema, n int) []Tuple {
	var dims [][]Num
	for i, f := range s.Fields {
		v := fieldValues(f)
		if i > 0 && len(s.Fields) > 2 {
			v = v[:2]
		}
		dims = append(dims, v)
	}
	strs := []string{""}
	if s.Str {
		strs = []string{"", "ab", "b"}
	}
	total := len(strs)
	for _, d := range dims {
		total *= len(d)
	}
	var all []Tuple
	for i := 0; i < total; i++ {
		x := i
		t := Tuple{}
		t.S = strs[x%len(strs)]
		x /= len(strs)
		for j := len(dims) - 1; j >= 0; j-- {
			t.N = append([]Num{dims[j][x%len(dims[j])]}, t.N...)
			x /= len(dims[j])
		}
		all = append(all, t)
	}
	if len(all) <= n {
		return all
	}
	var out []Tuple
	for i := 0; i < n; i++ {
		out = append(out, all[i*len(all)/n])
	}
	return out
}

// NewCompoundUniverse builds the universe of one schema from explicit tuples.
func NewCompoundUniverse(name string, s Schema, free, probes []Tuple, nvals int) *Universe {
	return NewCompoundUniverseD(name, s, free, probes, nvals, nil)
}

// NewCompoundUniverseD: driver factory for other value types.
func NewCompoundUniverseD(name string, s Schema, free, probes []Tuple, nvals int, mkDrv func(SchemaCodec, *KeySpec[Tuple], map[string]int) Driver) *Universe {
	return newCompoundUniverse(name, s, nil, free, probes, nvals, mkDrv)
}

// NewCompoundUniverseS: with setup tuples inserted before the closure starts (held, never part of the alphabet unless also free).
func NewCompoundUniverseS(name string, s Schema, setup, free, probes []Tuple, nvals int) *Universe {
	return newCompoundUniverse(name, s, setup, free, probes, nvals, nil)
}

func newCompoundUniverse(name string, s Schema, setup, free, probes []Tuple, nvals int, mkDrv func(SchemaCodec, *KeySpec[Tuple], map[string]int) Driver) *Universe {
	codec := SchemaCodec{S: s}
	u := &Universe{Name: "compound[" + s.String() + "]/" + name, Kind: "compound", KeyType: s.String(), NVals: nvals, HasRange: true}
	var keys []Tuple
	idx := map[string]int{}
	add := func(t Tuple) int {
		id := tupleIdent(t)
		if i, ok := idx[id]; ok {
			return i
		}
		idx[id] = len(keys)
		keys = append(keys, t)
		return len(keys) - 1
	}
	for _, t := range free {
		u.Free = append(u.Free, add(t))
	}
	for _, t := range probes {
		u.DelExtra = append(u.DelExtra, add(t))
	}
	for i := range keys {
		u.Probes = append(u.Probes, i)
		u.Bounds = append(u.Bounds, i)
	}
	for i, t := range setup {
		k := add(t)
		u.Setup = append(u.Setup, Op{Kind: OpInsert, K: k, V: 1})
		if k >= len(u.Probes) {
			u.Probes = append(u.Probes, k)
			if i == 0 || i == len(setup)/2 || i == len(setup)-1 {
				u.Bounds = append(u.Bounds, k)
			}
		}
	}
	spec := &KeySpec[Tuple]{Keys: keys, Ident: tupleIdent, Str: func(t Tuple) string { return t.String() }}
	index, class := BuildIndex(spec)
	u.NKeys = len(keys)
	u.Class = class
	u.KeyStr = make([]string, len(keys))
	order := make([]int, len(keys))
	for i, k := range keys {
		u.KeyStr[i] = k.String()
		order[i] = i
	}
	sort.SliceStable(order, func(a, b int) bool { return compareTuple(keys[order[a]], keys[order[b]]) < 0 })
	u.Rank = make([]int, len(keys))
	for r, i := range order {
		u.Rank[i] = r
	}
	u.TKey = func(k int) []byte { _, b := codec.Transform(keys[k]); return b }
	u.New = func() Driver { return NewDriver[Tuple](art.NewCompoundTree[Tuple, int](codec), spec, index) }
	if mkDrv != nil {
		u.New = func() Driver { return mkDrv(codec, spec, index) }
	}
	return u.Finish()
}

// CompoundRegistry: exhaustive schema enumeration (C09).
func CompoundRegistry(tier string) []UniverseDef {
	var out []UniverseDef
	addSchema := func(s Schema) {
		name := "compound[" + s.String() + "]/PRODUCT"
		out = append(out, UniverseDef{Name: name, Build: func() *Universe {
			ts := schemaTuples(s, 8)
			nf := min(6, len(ts))
			return NewCompoundUniverse("PRODUCT", s, ts[:nf], ts[nf:], 1)
		}})
	}
	maxLen := 2
	if tier == "thorough" {
		maxLen = 3
	}
	var rec func(prefix []FieldType)
	rec = func(prefix []FieldType) {
		if len(prefix) > 0 {
			for _, str := range []bool{false, true} {
				addSchema(Schema{Fields: append([]FieldType(nil), prefix...), Str: str})
			}
		}
		if len(prefix) == maxLen {
			return
		}
		for f := FieldType(0); f < nFieldTypes; f++ {
			rec(append(prefix, f))
		}
	}
	rec(nil)
	if tier == "thorough" {
		reps := []FieldType{FU8, FI16, FF32, FU64}
		for a := range reps {
			for b := range reps {
				for c := range reps {
					for d := range reps {
						for _, str := range []bool{false, true} {
							addSchema(Schema{Fields: []FieldType{reps[a], reps[b], reps[c], reps[d]}, Str: str})
						}
					}
				}
			}
		}
	}
	// long shared paths: 16-byte numeric part, keys that differ only after byte 10
	long := Schema{Fields: []FieldType{FU64, FU64}, Str: true}
	mk := func(a, b uint64, s string) Tuple {
		return Tuple{N: []Num{{T: FU64, U: a}, {T: FU64, U: b}}, S: s}
	}
	out = append(out, UniverseDef{Name: "compound[" + long.String() + "]/LONG", Build: func() *Universe {
		free := []Tuple{mk(7, 0x0101010101010100, "x"), mk(7, 0x0101010101010101, "x"), mk(7, 0x0101010101010100, "y"), mk(7, 0x0101010101020100, ""), mk(7, 0x0101010101010100, "xq"), mk(8, 0, ""), mk(7, 0x0101010101010100, "")}
		probes := []Tuple{mk(7, 0x0101010101010102, "x"), mk(7, 0x0101010101010000, "x"), mk(7, 0x0101010201010100, "x"), mk(6, 0, "")}
		return NewCompoundUniverse("LONG", long, free, probes, 1)
	}})
	ustr := Schema{Fields: []FieldType{FU8}, Str: true}
	ms := func(s string) Tuple { return Tuple{N: []Num{{T: FU8, U: 1}}, S: s} }
	out = append(out, UniverseDef{Name: "compound[" + ustr.String() + "]/LONGSTR", Build: func() *Universe {
		A := rep('a', 15)
		free := []Tuple{ms(A + "b"), ms(A + "c"), ms(A[:9] + "z"), ms(A + "bq"), ms("x"), ms("")}
		probes := []Tuple{ms(A[:14]), ms(A[:13]), ms(A), ms(A[:10]), ms(A + "d")}
		return NewCompoundUniverse("LONGSTR", ustr, free, probes, 1)
	}})
	// fan-outs of every node class inside compound keys: n tuples sharing the leading field, free tuples below, inside and
	// above the held ones (a new smallest / largest sibling, a deletion in the middle), numeric and string-tailed
	for _, n := range []int{5, 17, 49} {
		n := n
		gi := Schema{Fields: []FieldType{FU16, FI8}}
		mi := func(g uint64, x int64) Tuple { return Tuple{N: []Num{{T: FU16, U: g}, {T: FI8, I: x}}} }
		out = append(out, UniverseDef{Name: fmt.Sprintf("compound[%s]/CFAN%d", gi.String(), n), Build: func() *Universe {
			var setup []Tuple
			for i := 0; i < n; i++ {
				setup = append(setup, mi(1, int64(-100+4*i)))
			}
			free := []Tuple{mi(1, -128), mi(1, int64(-100+4*(n/2))), mi(1, int64(-100+4*(n/2))+1), mi(1, 127), mi(1, -100), mi(2, 0)}
			return NewCompoundUniverseS(fmt.Sprintf("CFAN%d", n), gi, setup, free, []Tuple{mi(1, -127), mi(0, 0)}, 1)
		}})
		gs := Schema{Fields: []FieldType{FU32}, Str: true}
		msn := func(g uint64, s string) Tuple { return Tuple{N: []Num{{T: FU32, U: g}}, S: s} }
		out = append(out, UniverseDef{Name: fmt.Sprintf("compound[%s]/CFANS%d", gs.String(), n), Build: func() *Universe {
			var setup []Tuple
			for i := 0; i < n; i++ {
				setup = append(setup, msn(7, string(rune('1'+i))+"x"))
			}
			free := []Tuple{msn(7, ""), msn(7, string(rune('1'+n/2))+"x"), msn(7, string(rune('1'+n/2))+"y"), msn(7, "\x7fz"), msn(7, "1x"), msn(9, "x")}
			return NewCompoundUniverseS(fmt.Sprintf("CFANS%d", n), gs, setup, free, []Tuple{msn(7, "0"), msn(6, "")}, 1)
		}})
	}
	// length-prefixed names behind a 10-byte tenant id: keys of different lengths without any terminator; the
	// length byte lies in the hidden part of the shared path, so a probe can differ from every stored key only there,
	// follow an existing branch and run out inside (or exactly at the end of) a deeper path
	lp := Schema{Fields: []FieldType{FU64, FU16, FU8}, Raw: true}
	ml := func(s string) Tuple {
		return Tuple{N: []Num{{T: FU64, U: 0x0101010101010101}, {T: FU16, U: 0x0101}, {T: FU8, U: uint64(len(s))}}, S: s}
	}
	out = append(out, UniverseDef{Name: "compound[" + lp.String() + "]/LENPFX", Build: func() *Universe {
		free := []Tuple{ml("qlongtailAA1"), ml("qlongtailAA2"), ml("rxxxxxxxxxxx"), ml("q"), ml("qlongtailAB")}
		probes := []Tuple{ml("ql"), ml("qlong"), ml("qlongtailA"), ml("qlongtailAA"), ml("qlongtailAA1x"), ml("r"), ml("")}
		return NewCompoundUniverse("LENPFX", lp, free, probes, 1)
	}})
	out = append(out, UniverseDef{Name: "compound[" + long.String() + "]/VALS", Build: func() *Universe {
		free := []Tuple{mk(7, 0x0101010101010100, "x"), mk(7, 0x0101010101010101, "x"), mk(7, 0x0101010101010100, "y"), mk(8, 0, ""), mk(7, 0x0101010101010100, "")}
		return NewCompoundUniverse("VALS", long, free, nil, 2)
	}})
	return out
}
