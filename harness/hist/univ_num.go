package hist

import (
	"fmt"
	"math"
	"sort"

	art "github.com/Clement-Jean/go-art"
)

// NumSpec is the data of one numeric universe.
type NumSpec[K any] struct {
	Name     string
	Setup    []K
	SetupDel []K
	Free     []K
	Probes   []K
	Bounds   []K
	NVals    int
	// SearchOnly keys are Search probes only (never inserted, never deleted).
	SearchOnly []K
	Filler     []K
}

type numOps[K any] struct {
	less  func(a, b K) bool
	ident func(K) string
	str   func(K) string
	tkey  func(K) []byte
	skip  func(a, b K) bool // carved-out Range pairs
}

type integer interface {
	~int | ~int8 | ~int16 | ~int32 | ~int64 | ~uint | ~uint8 | ~uint16 | ~uint32 | ~uint64
}

func intOps[K integer](tkey func(K) []byte) numOps[K] {
	return numOps[K]{
		less:  func(a, b K) bool { return a < b },
		ident: func(k K) string { return fmt.Sprint(k) },
		str:   func(k K) string { return fmt.Sprintf("%d(%#x)", k, uint64(k)) },
		tkey:  tkey,
	}
}

// floatLess is the property's total order: NaN < -Inf < ... < -0 < +0 < ... < +Inf.
func floatLess(a, b float64) bool {
	an, bn := math.IsNaN(a), math.IsNaN(b)
	if an || bn {
		return an && !bn
	}
	if a == b {
		return math.Signbit(a) && !math.Signbit(b)
	}
	return a < b
}

func floatIdent(f float64) string {
	if math.IsNaN(f) {
		return "NaN"
	}
	return fmt.Sprintf("%016x", math.Float64bits(f))
}

func floatOps[K float32 | float64](tkey func(K) []byte) numOps[K] {
	return numOps[K]{
		less:  func(a, b K) bool { return floatLess(float64(a), float64(b)) },
		ident: func(k K) string { return floatIdent(float64(k)) },
		str: func(k K) string {
			f := float64(k)
			if f == 0 && math.Signbit(f) {
				return "-0"
			}
			return fmt.Sprintf("%g", f)
		},
		tkey: tkey,
		skip: func(a, b K) bool {
			fa, fb := float64(a), float64(b)
			if math.IsNaN(fa) || math.IsNaN(fb) {
				return true
			}
			return fa == 0 && fb == 0 && math.Signbit(fa) != math.Signbit(fb)
		},
	}
}

// NewNumUniverse assembles a numeric universe.
func NewNumUniverse[K any](kind, keyType string, mk func() art.Tree[K, int], sp NumSpec[K], ops numOps[K]) *Universe {
	return NewNumUniverseD(kind, keyType, sp, ops, func(spec *KeySpec[K], index map[string]int) Driver { return NewDriver[K](mk(), spec, index) })
}

// NewNumUniverseD is NewNumUniverse with a caller-supplied driver factory (other value types).
func NewNumUniverseD[K any](kind, keyType string, sp NumSpec[K], ops numOps[K], mkDrv func(spec *KeySpec[K], index map[string]int) Driver) *Universe {
	u := &Universe{Name: kind + "[" + keyType + "]/" + sp.Name, Kind: kind, KeyType: keyType, NVals: sp.NVals, HasRange: true}
	var keys []K
	idx := map[string]int{}
	add := func(k K) int {
		// distinct bit patterns of one identity class (NaN payloads) are distinct universe keys
		tag := ops.ident(k) + "/" + fmt.Sprintf("%v", any(k))
		if ops.ident(k) == "NaN" {
			tag = fmt.Sprintf("NaN/%x", nanBits(any(k)))
		}
		if i, ok := idx[tag]; ok {
			return i
		}
		idx[tag] = len(keys)
		keys = append(keys, k)
		return len(keys) - 1
	}
	for _, k := range sp.Setup {
		u.Setup = append(u.Setup, Op{Kind: OpInsert, K: add(k), V: 1})
	}
	for _, k := range sp.SetupDel {
		u.Setup = append(u.Setup, Op{Kind: OpDelete, K: add(k)})
	}
	for _, k := range sp.Free {
		u.Free = append(u.Free, add(k))
	}
	for _, k := range sp.Probes {
		u.DelExtra = append(u.DelExtra, add(k))
	}
	for i := range keys {
		u.Probes = append(u.Probes, i)
	}
	for _, k := range sp.Filler {
		u.Filler = append(u.Filler, add(k))
	}
	for _, k := range sp.SearchOnly {
		n := len(keys)
		if i := add(k); i >= n {
			u.Probes = append(u.Probes, i)
		}
	}
	bset := map[int]bool{}
	addB := func(i int) {
		if !bset[i] {
			bset[i] = true
			u.Bounds = append(u.Bounds, i)
		}
	}
	for _, k := range u.Free {
		addB(k)
	}
	for _, k := range u.DelExtra {
		addB(k)
	}
	for _, k := range sp.Bounds {
		addB(add(k))
	}
	if n := len(sp.Setup); n > 0 {
		addB(add(sp.Setup[0]))
		addB(add(sp.Setup[n/2]))
		addB(add(sp.Setup[n-1]))
	}
	spec := &KeySpec[K]{Keys: keys, Ident: ops.ident, Str: ops.str}
	index, class := BuildIndex(spec)
	u.NKeys = len(keys)
	u.Class = class
	u.KeyStr = make([]string, len(keys))
	for i, k := range keys {
		u.KeyStr[i] = ops.str(k)
		if ops.ident(k) == "NaN" {
			u.KeyStr[i] = fmt.Sprintf("NaN(%x)", nanBits(any(k)))
		}
	}
	// rank: sort class representatives with the oracle order
	var reps []int
	for i := range keys {
		if class[i] == i {
			reps = append(reps, i)
		}
	}
	sort.SliceStable(reps, func(a, b int) bool { return ops.less(keys[reps[a]], keys[reps[b]]) })
	u.Rank = make([]int, len(keys))
	for r, i := range reps {
		u.Rank[i] = r
	}
	for i := range keys {
		u.Rank[i] = u.Rank[class[i]]
	}
	if ops.skip != nil {
		u.RangeSkip = func(a, b int) bool { return ops.skip(keys[a], keys[b]) }
	}
	if ops.tkey != nil {
		u.TKey = func(k int) []byte { return ops.tkey(keys[k]) }
	}
	u.New = func() Driver { return mkDrv(spec, index) }
	return u.Finish()
}

func nanBits(k any) uint64 {
	switch f := k.(type) {
	case float32:
		return uint64(math.Float32bits(f))
	case float64:
		return math.Float64bits(f)
	}
	return 0
}

// numFromBytes maps a single-byte alpha spec (fan window) to numeric keys.
func numFromBytes[K any](sp AlphaSpec, f func(byte) K) NumSpec[K] {
	conv := func(ss []string) []K {
		var out []K
		for _, s := range ss {
			if len(s) == 1 {
				out = append(out, f(s[0]))
			}
		}
		return out
	}
	return NumSpec[K]{Name: sp.Name, Setup: conv(sp.Setup), SetupDel: conv(sp.SetupDel), Free: conv(sp.Free), Probes: conv(sp.Probes), NVals: sp.NVals, Filler: conv(sp.Filler)}
}

// fanWindows are the node-size-class windows used for numeric keys.
func fanWindows(tier string) []FanSpec {
	f := []FanSpec{
		{Name: "FAN0-8", Hold: 0, Absent: 8},
		{Name: "FAN16@15", Hold: 15, Present: 3, Absent: 3},
		{Name: "FAN48@14", Hold: 14, Extra: 3, Present: 3, Absent: 3},
		{Name: "FAN48@46", Hold: 46, Present: 2, Absent: 4},
		{Name: "FAN256@39", Hold: 39, Extra: 10, Present: 4, Absent: 2},
	}
	if tier == "thorough" {
		f = append(f, FanSpec{Name: "FAN48@42", Hold: 42, Present: 3, Absent: 3},
			FanSpec{Name: "FAN256@42", Hold: 42, Extra: 8, Present: 3, Absent: 3},
			FanSpec{Name: "FAN16@8", Hold: 8, Present: 3, Absent: 3},
			FanSpec{Name: "FAN48@46/ord1", Hold: 46, Present: 2, Absent: 4, Order: 1},
			FanSpec{Name: "FAN256@39/ord2", Hold: 39, Extra: 10, Present: 4, Absent: 2, Order: 2})
	}
	return f
}

type numDef struct {
	name string
	mk   func() *Universe
}

func unsignedDefs[K uint | uint8 | uint16 | uint32 | uint64](keyType string, tier string, boundary []K, rangeShape []K, fanBase K, fans bool) []UniverseDef {
	ops := intOps[K](func(k K) []byte { _, b := art.UnsignedBinaryKey[K]{}.Transform(k); return b })
	mk := func() art.Tree[K, int] { return art.NewUnsignedBinaryTree[K, int]() }
	return numDefs("unsigned", keyType, tier, mk, ops, boundary, rangeShape, func(b byte) K { return fanBase | K(b) }, fans)
}

func signedDefs[K int | int8 | int16 | int32 | int64](keyType string, tier string, boundary []K, rangeShape []K, fanBase K, fans bool) []UniverseDef {
	ops := intOps[K](func(k K) []byte { _, b := art.SignedBinaryKey[K]{}.Transform(k); return b })
	mk := func() art.Tree[K, int] { return art.NewSignedBinaryTree[K, int]() }
	return numDefs("signed", keyType, tier, mk, ops, boundary, rangeShape, func(b byte) K { return fanBase + K(int8(b)) }, fans)
}

func floatDefs[K float32 | float64](keyType string, tier string, boundary []K, rangeShape []K, fromByte func(byte) K, fans bool) []UniverseDef {
	ops := floatOps[K](func(k K) []byte { _, b := art.FloatBinaryKey[K]{}.Transform(k); return b })
	mk := func() art.Tree[K, int] { return art.NewFloatBinaryTree[K, int]() }
	return numDefs("float", keyType, tier, mk, ops, boundary, rangeShape, fromByte, fans)
}

func numDefs[K any](kind, keyType, tier string, mk func() art.Tree[K, int], ops numOps[K], boundary, rangeShape []K, fromByte func(byte) K, fans bool) []UniverseDef {
	var out []UniverseDef
	add := func(sp NumSpec[K]) {
		out = append(out, UniverseDef{Name: kind + "[" + keyType + "]/" + sp.Name, Build: func() *Universe { return NewNumUniverse(kind, keyType, mk, sp, ops) }})
	}
	nFree := 8
	if tier == "thorough" {
		nFree = 10
	}
	if len(boundary) > 0 {
		free, probes := boundary, []K(nil)
		if len(boundary) > nFree {
			free, probes = boundary[:nFree], boundary[nFree:]
		}
		add(NumSpec[K]{Name: "BOUNDARY", Free: free, Probes: probes})
		if len(free) > 5 {
			add(NumSpec[K]{Name: "VALS", Free: free[:5], NVals: 2})
		}
	}
	if len(rangeShape) > 0 {
		free, probes := rangeShape, []K(nil)
		if len(rangeShape) > nFree {
			free, probes = rangeShape[:nFree], rangeShape[nFree:]
		}
		add(NumSpec[K]{Name: "RANGESHAPE", Free: free, Probes: probes})
	}
	if fans {
		for _, f := range fanWindows(tier) {
			add(numFromBytes(FanUniverse(f), fromByte))
		}
		// a node holding every one of the 256 byte values (and the states just below)
		var setup, free []K
		for b := 0; b < 256; b++ {
			if b == 0x00 || b == 0x7f || b == 0x80 || b == 0xff || b == 0x41 {
				free = append(free, fromByte(byte(b)))
			} else {
				setup = append(setup, fromByte(byte(b)))
			}
		}
		add(NumSpec[K]{Name: "FULL256", Setup: setup, Free: free})
	}
	return out
}

// NumericRegistry lists the numeric universes of a tier.
func NumericRegistry(tier string) []UniverseDef {
	th := tier == "thorough"
	var out []UniverseDef
	// --- unsigned ---
	out = append(out, unsignedDefs[uint8]("uint8", tier, []uint8{0, 1, 0x7f, 0x80, 0xff, 0xfe, 2, 0x81, 0x41, 0x10}, nil, 0, true)...)
	out = append(out, unsignedDefs[uint16]("uint16", tier, []uint16{0, 1, 0xff, 0x100, 0x101, 0x7fff, 0x8000, 0xffff, 0xfffe, 0x8001}, []uint16{0x0200, 0x0201, 0x0281, 0x0300, 0x0301, 0x8000, 0x0280, 0x02ff}, 0x1200, true)...)
	out = append(out, unsignedDefs[uint32]("uint32", tier, []uint32{0, 1, 0xff, 0x100, 0xffff, 0x10000, 0x7fffffff, 0x80000000, 0xffffffff, 0x101}, nil, 0x12345600, th)...)
	u64b := []uint64{0, 1, 0xff, 0x100, 0x101, 1 << 32, 1<<63 - 1, 1 << 63, math.MaxUint64, 1<<32 - 1}
	u64r := []uint64{2 << 48, 0x8000, 0x0002000100010000, 0x0002000100010281, 0x0002000100010280, 0x0002000100020000, 0x0002000200010000, 0x0003000100010000, 0x0002000100010001, 0x00020001000102ff}
	out = append(out, unsignedDefs[uint64]("uint64", tier, u64b, u64r, 0x0123456789abcd00, true)...)
	ub := []uint{0, 1, 0xff, 0x100, 0x101, math.MaxUint, math.MaxUint - 1, math.MaxUint/2 + 1, math.MaxUint / 2, 0xffff}
	out = append(out, unsignedDefs[uint]("uint", tier, ub, nil, 0x12345600, th)...)
	// --- signed ---
	out = append(out, signedDefs[int8]("int8", tier, []int8{math.MinInt8, -2, -1, 0, 1, math.MaxInt8, math.MinInt8 + 1, 2, 64, -64}, nil, 0, true)...)
	out = append(out, signedDefs[int16]("int16", tier, []int16{math.MinInt16, -256, -1, 0, 1, 255, 256, math.MaxInt16, -257, 257}, []int16{-0x0200, -0x01ff, -0x0101, 0x0100, 0x0101, 0x0181, -0x0201, 0x0180}, 0x1280, th)...)
	out = append(out, signedDefs[int32]("int32", tier, []int32{math.MinInt32, -65536, -1, 0, 1, 65535, math.MaxInt32, -256, 256, -2}, nil, 0x12345680, th)...)
	i64b := []int64{math.MinInt64, -1 << 31, -1, 0, 1, math.MaxInt64, 1 << 31, -256, 255, -2}
	i64r := []int64{-0x0002000100010000, -0x0002000100010281, 0x0002000100010000, 0x0002000100010281, 0x0002000100010280, -0x0002000100020000, 0x8000, -0x8000, 0x0002000200010000, 0x00020001000102ff}
	out = append(out, signedDefs[int64]("int64", tier, i64b, i64r, -0x0123456789abcd80, true)...)
	ib := []int{math.MinInt, math.MinInt / 2, -1, 0, 1, math.MaxInt, math.MaxInt/2 + 1, -256, 255, -2}
	out = append(out, signedDefs[int]("int", tier, ib, nil, 0x12345680, th)...)
	// --- float ---
	nan2 := math.Float64frombits(0x7ff8000000000001)
	nanNeg := math.Float64frombits(0xfff8000000000000)
	f64b := []float64{math.NaN(), nan2, math.Inf(-1), -1, math.Copysign(0, -1), 0, 1, math.Inf(1), math.SmallestNonzeroFloat64, -math.MaxFloat64, -math.SmallestNonzeroFloat64, math.MaxFloat64, nanNeg}
	f64r := []float64{1.5, 1.5000000000000002, 1.5000000000000004, -1.5, -1.5000000000000002, 2.5, 1e300, -1e300, 1.25, -2.5}
	out = append(out, floatDefs[float64]("float64", tier, f64b, f64r, func(b byte) float64 { return math.Float64frombits(0x4010000000000000 + uint64(b)) }, true)...)
	nan32 := math.Float32frombits(0x7fc00001)
	nan32n := math.Float32frombits(0xffc00000)
	f32b := []float32{float32(math.NaN()), nan32, float32(math.Inf(-1)), -1, float32(math.Copysign(0, -1)), 0, 1, float32(math.Inf(1)), math.SmallestNonzeroFloat32, -math.MaxFloat32, -math.SmallestNonzeroFloat32, math.MaxFloat32, nan32n}
	out = append(out, floatDefs[float32]("float32", tier, f32b, []float32{1.5, 1.5000001, -1.5, -1.5000001, 2.5, 1e30, -1e30, 1.25}, func(b byte) float32 { return -math.Float32frombits(0x40100000 + uint32(b)) }, th)...)
	return out
}

// NodeTableRegistry (C10, tree level): single-byte-key trees whose root is one pure
// fan-out node, with all 256 byte values as Search probes in every state, so that the
// lookups inlined into the generated Search are exercised like the bare node is.
func NodeTableRegistry(tier string) []UniverseDef {
	var out []UniverseDef
	all := make([]uint8, 256)
	for i := range all {
		all[i] = uint8(i)
	}
	ops := intOps[uint8](func(k uint8) []byte { _, b := art.UnsignedBinaryKey[uint8]{}.Transform(k); return b })
	mk := func() art.Tree[uint8, int] { return art.NewUnsignedBinaryTree[uint8, int]() }
	for _, f := range fanWindows(tier) {
		sp := numFromBytes(FanUniverse(f), func(b byte) uint8 { return b })
		sp.Name = "TABLE-" + sp.Name
		sp.SearchOnly = all
		sp.Probes = nil
		out = append(out, UniverseDef{Name: "unsigned[uint8]/" + sp.Name, Build: func() *Universe { return NewNumUniverse("unsigned", "uint8", mk, sp, ops) }})
	}
	for i, alpha := range [][]uint8{{0x00, 0x01, 0x7f, 0x80, 0x81, 0xfe, 0xff, 0x41}, {0xf8, 0xf9, 0xfa, 0xfb, 0xfc, 0xfd, 0xfe, 0xff}, {0x00, 0x01, 0x02, 0x03, 0x04, 0x05, 0x06, 0x07}} {
		sp := NumSpec[uint8]{Name: fmt.Sprintf("TABLE-N4-16/alpha%d", i), Free: alpha, SearchOnly: all}
		out = append(out, UniverseDef{Name: "unsigned[uint8]/" + sp.Name, Build: func() *Universe { return NewNumUniverse("unsigned", "uint8", mk, sp, ops) }})
	}
	return out
}
