package hist

import (
	"fmt"
	"runtime"
	"runtime/debug"
	"time"

	art "github.com/Clement-Jean/go-art"
)

// C17, content clause: what a tree keeps alive is what it currently stores.
//   release/<kind>: values that carry a 16 KiB payload; after the keys are deleted (or overwritten with
//                   a small value) the payloads must be collectable, in every (phase order) variant.
//   bulk/<kind>:    a tree large enough to hold thousands of inner nodes of every class is emptied by
//                   deletion (three orders); what stays is a small constant.

const (
	relKeys      = 300
	relPayload   = 16 << 10
	relThreshold = 256 << 10
	bulkKeys     = 200000
)

type payload struct {
	tag int
	b   [relPayload]byte
}

type relTree struct {
	name   string
	insert func(i int, p *payload)
	delete func(i int) bool
	size   func() int
	keep   any
}

func relTrees() []func() relTree {
	key := func(i int) string { return fmt.Sprintf("record/%05d/field", i*7919%100000) }
	return []func() relTree{
		func() relTree {
			t := art.NewAlphaSortedTree[string, *payload]()
			return relTree{"alpha[string]", func(i int, p *payload) { t.Insert(key(i), p) }, func(i int) bool { return t.Delete(key(i)) }, t.Size, t}
		},
		func() relTree {
			t := art.NewUnsignedBinaryTree[uint64, *payload]()
			return relTree{"unsigned[uint64]", func(i int, p *payload) { t.Insert(uint64(i)*2654435761, p) }, func(i int) bool { return t.Delete(uint64(i) * 2654435761) }, t.Size, t}
		},
		func() relTree {
			t := art.NewSignedBinaryTree[int32, *payload]()
			return relTree{"signed[int32]", func(i int, p *payload) { t.Insert(int32(i*7-1000), p) }, func(i int) bool { return t.Delete(int32(i*7 - 1000)) }, t.Size, t}
		},
		func() relTree {
			t := art.NewFloatBinaryTree[float64, *payload]()
			return relTree{"float[float64]", func(i int, p *payload) { t.Insert(float64(i)*1.5-100, p) }, func(i int) bool { return t.Delete(float64(i)*1.5 - 100) }, t.Size, t}
		},
		func() relTree {
			t := art.NewCollationSortedTree[string, *payload]()
			return relTree{"collation[string]", func(i int, p *payload) { t.Insert(key(i), p) }, func(i int) bool { return t.Delete(key(i)) }, t.Size, t}
		},
		func() relTree {
			s := Schema{Fields: []FieldType{FU64}, Str: true}
			t := art.NewCompoundTree[Tuple, *payload](SchemaCodec{S: s})
			mk := func(i int) Tuple { return Tuple{N: []Num{{T: FU64, U: uint64(i % 7)}}, S: key(i)} }
			return relTree{"compound[u64,str]", func(i int, p *payload) { t.Insert(mk(i), p) }, func(i int) bool { return t.Delete(mk(i)) }, t.Size, t}
		},
	}
}

// ReleaseJobs names the jobs of this file.
func ReleaseJobs() []string {
	var out []string
	for _, mk := range relTrees() {
		out = append(out, "release/"+mk().name)
	}
	return append(out, "bulk/unsigned[uint64]", "bulk/alpha[string]", "bulk/collation[string]")
}

func exploreRelease(job, tier string, res *Result) {
	st := &res.Stats
	var mkTree func() relTree
	for _, mk := range relTrees() {
		if "release/"+mk().name == job {
			mkTree = mk
		}
	}
	if mkTree == nil {
		res.HarnessErr = "no release job " + job
		return
	}
	type variant struct {
		name string
		run  func(t relTree) string
	}
	small := &payload{tag: -1}
	order := func(name string, idx func(n int) int) variant {
		return variant{"insert " + fmt.Sprint(relKeys) + " keys with 16 KiB values, delete all of them " + name, func(t relTree) string {
			for n := 0; n < relKeys; n++ {
				if !t.delete(idx(n)) {
					return "Delete of a stored key = false"
				}
			}
			return ""
		}}
	}
	variants := []variant{
		order("in ascending order", func(n int) int { return n }),
		order("in descending order", func(n int) int { return relKeys - 1 - n }),
		order("in a scattered order", func(n int) int { return n * 7 % relKeys }),
		{"insert " + fmt.Sprint(relKeys) + " keys with 16 KiB values, overwrite every value with one small shared value", func(t relTree) string {
			for n := 0; n < relKeys; n++ {
				t.insert(n, small)
			}
			return ""
		}},
		{"insert " + fmt.Sprint(relKeys) + " keys with 16 KiB values, delete all, insert them again with a small shared value, delete all", func(t relTree) string {
			for n := 0; n < relKeys; n++ {
				t.delete(n)
			}
			for n := 0; n < relKeys; n++ {
				t.insert(n, small)
			}
			for n := 0; n < relKeys; n++ {
				t.delete(n)
			}
			return ""
		}},
	}
	maxKept := int64(0)
	measure := func(v variant) (int64, string) {
		t := mkTree()
		// warm-up outside the measurement (lazy tables, first growth of buffers)
		t.insert(0, small)
		t.delete(0)
		before := liveHeap()
		for n := 0; n < relKeys; n++ {
			t.insert(n, &payload{tag: n})
		}
		full := liveHeap()
		if full-before < relKeys*relPayload/2 {
			return 0, "" // the tree does not even hold the values: owned by C01
		}
		if msg := v.run(t); msg != "" {
			return 0, "" // owned by C01
		}
		after := liveHeap()
		runtime.KeepAlive(t.keep)
		runtime.KeepAlive(small)
		return after - before, t.name
	}
	for _, v := range variants {
		st.Evaluations++
		st.Nontrivial++
		kept, name := measure(v)
		if kept > maxKept {
			maxKept = kept
		}
		if kept > relThreshold {
			if k2, _ := measure(v); k2 <= relThreshold {
				// retained the first time only: something outside the tree (package level) keeps it and is reused the second
				// time. Confirmed at job level: the runner repeats the whole job in a fresh process.
				u := viol("live heap still reachable after the values left the tree, the first time in a process only; "+name+": "+v.name,
					fmt.Sprintf("<= %d bytes (measured: %d bytes the first time, %d when repeated in the same process)", relThreshold, kept, k2), fmt.Sprintf("more than %d bytes", relThreshold))
				u.Property, u.Universe, u.Tier = "C17", job, tier
				u.Tags = []string{"crash"}
				res.Unconfirmed = u
				res.HarnessErr = "first-use retention, to be confirmed by re-running the job"
				st.Exhaustive = false
				return
			}
			viol := viol("live heap still reachable from the tree; "+name+": "+v.name, fmt.Sprintf("<= %d bytes more than before the keys were inserted (the values are gone from the tree)", relThreshold),
				fmt.Sprintf("%d bytes (%.1f values of 16 KiB)", kept, float64(kept)/relPayload))
			viol.Property, viol.Universe, viol.Tier = "C17", job, tier
			viol.Tags = []string{"crash"}
			res.Violations = append(res.Violations, viol)
			st.Exhaustive = false
			return
		}
	}
	st.Extra = map[string]float64{"max_retained_bytes_after_values_left_the_tree": float64(maxKept)}
	st.Samples = append(st.Samples, fmt.Sprintf("%s: %d variants (delete orders, overwrite, delete/re-insert), %d keys with 16 KiB values each", job, len(variants), relKeys))
}

func exploreBulk(job, tier string, res *Result) {
	st := &res.Stats
	type bulk struct {
		insert func(i int)
		delete func(i int) bool
		size   func() int
		keep   any
	}
	var mk func() bulk
	skey := func(i int) string { return fmt.Sprintf("%c%c/%06d", byte('!'+i%90), byte('!'+(i/90)%90), i) }
	switch job {
	case "bulk/unsigned[uint64]":
		mk = func() bulk {
			t := art.NewUnsignedBinaryTree[uint64, int]()
			return bulk{func(i int) { t.Insert(uint64(i), i) }, func(i int) bool { return t.Delete(uint64(i)) }, t.Size, t}
		}
	case "bulk/alpha[string]":
		mk = func() bulk {
			t := art.NewAlphaSortedTree[string, int]()
			return bulk{func(i int) { t.Insert(skey(i), i) }, func(i int) bool { return t.Delete(skey(i)) }, t.Size, t}
		}
	case "bulk/collation[string]":
		mk = func() bulk {
			t := art.NewCollationSortedTree[string, int]()
			return bulk{func(i int) { t.Insert(skey(i), i) }, func(i int) bool { return t.Delete(skey(i)) }, t.Size, t}
		}
	default:
		res.HarnessErr = "no bulk job " + job
		return
	}
	n := bulkKeys
	if job == "bulk/collation[string]" {
		n = bulkKeys / 4
	}
	orders := []struct {
		name string
		idx  func(k int) int
	}{
		{"ascending", func(k int) int { return k }},
		{"descending", func(k int) int { return n - 1 - k }},
		{"scattered", func(k int) int { return int(uint64(k) * 7919 % uint64(n)) }},
	}
	maxKept := int64(0)
	measure := func(o int) int64 {
		t := mk()
		t.insert(0)
		t.delete(0)
		before := liveHeap()
		for i := 0; i < n; i++ {
			t.insert(i)
		}
		for k := 0; k < n; k++ {
			if !t.delete(orders[o].idx(k)) {
				return 0 // owned by C01
			}
		}
		if t.size() != 0 {
			return 0 // owned by C06
		}
		after := liveHeap()
		runtime.KeepAlive(t.keep)
		return after - before
	}
	for o := range orders {
		st.Evaluations++
		st.Nontrivial++
		kept := measure(o)
		if kept > maxKept {
			maxKept = kept
		}
		if kept > relThreshold {
			if k2 := measure(o); k2 <= relThreshold {
				u := viol(fmt.Sprintf("live heap after a tree of %d keys was emptied by deletion in %s order (%s), the first time in a process only", n, orders[o].name, job),
					fmt.Sprintf("<= %d bytes (measured: %d bytes the first time, %d when repeated in the same process: kept outside the tree and reused)", relThreshold, kept, k2), fmt.Sprintf("more than %d bytes", relThreshold))
				u.Property, u.Universe, u.Tier = "C17", job, tier
				u.Tags = []string{"crash"}
				res.Unconfirmed = u
				res.HarnessErr = "first-use retention, to be confirmed by re-running the job"
				st.Exhaustive = false
				return
			}
			v := viol(fmt.Sprintf("live heap after a tree of %d keys was emptied by deletion in %s order (%s)", n, orders[o].name, job),
				fmt.Sprintf("<= %d bytes more than before the keys were inserted", relThreshold), fmt.Sprintf("%d bytes", kept))
			v.Property, v.Universe, v.Tier = "C17", job, tier
			v.Tags = []string{"crash"}
			res.Violations = append(res.Violations, v)
			st.Exhaustive = false
			return
		}
	}
	st.Extra = map[string]float64{"max_retained_bytes_after_bulk_tree_emptied": float64(maxKept)}
	st.Samples = append(st.Samples, fmt.Sprintf("%s: %d keys inserted, deleted in 3 orders", job, n))
}

// ExploreRelease runs one release/ or bulk/ job.
func ExploreRelease(job, tier string, deadline time.Duration) *Result {
	start := time.Now()
	debug.SetGCPercent(100)
	runtime.GOMAXPROCS(1)
	res := &Result{Universe: job, Property: "C17"}
	res.Stats.Exhaustive = true
	defer func() { res.Stats.WallS = time.Since(start).Seconds() }()
	if len(job) > 5 && job[:5] == "bulk/" {
		exploreBulk(job, tier, res)
	} else {
		exploreRelease(job, tier, res)
	}
	return res
}
