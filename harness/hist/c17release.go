package hist

import (
	"fmt"
	"runtime"
	"runtime/debug"
	"strings"
	"time"
	"unsafe"

	art "github.com/Clement-Jean/go-art"
)

// C17, content clause: what a tree keeps alive is what it currently stores.
//   release/<kind>: values that carry a 16 KiB payload; after the keys are deleted (or overwritten with
//                   a small value) the payloads must be collectable, in every (phase order) variant.
//   bulk/<kind>:    a tree large enough to hold thousands of inner nodes of every class is emptied by
//                   deletion (three orders); what stays is a small constant.

const (
	relKeys      = 300
	relPayload   = 16 << 10
	relThreshold = 256 << 10
	bulkKeys     = 200000
)

type payload struct {
	tag int
	b   [relPayload]byte
}

type relTree struct {
	name   string
	insert func(i int, p *payload)
	delete func(i int) bool
	size   func() int
	keep   any
}

func relTrees() []func() relTree {
	key := func(i int) string { return fmt.Sprintf("record/%05d/field", i*7919%100000) }
	return []func() relTree{
		func() relTree {
			t := art.NewAlphaSortedTree[string, *payload]()
			return relTree{"alpha[string]", func(i int, p *payload) { t.Insert(key(i), p) }, func(i int) bool { return t.Delete(key(i)) }, t.Size, t}
		},
		func() relTree {
			t := art.NewUnsignedBinaryTree[uint64, *payload]()
			return relTree{"unsigned[uint64]", func(i int, p *payload) { t.Insert(uint64(i)*2654435761, p) }, func(i int) bool { return t.Delete(uint64(i) * 2654435761) }, t.Size, t}
		},
		func() relTree {
			t := art.NewSignedBinaryTree[int32, *payload]()
			return relTree{"signed[int32]", func(i int, p *payload) { t.Insert(int32(i*7-1000), p) }, func(i int) bool { return t.Delete(int32(i*7 - 1000)) }, t.Size, t}
		},
		func() relTree {
			t := art.NewFloatBinaryTree[float64, *payload]()
			return relTree{"float[float64]", func(i int, p *payload) { t.Insert(float64(i)*1.5-100, p) }, func(i int) bool { return t.Delete(float64(i)*1.5 - 100) }, t.Size, t}
		},
		func() relTree {
			t := art.NewCollationSortedTree[string, *payload]()
			return relTree{"collation[string]", func(i int, p *payload) { t.Insert(key(i), p) }, func(i int) bool { return t.Delete(key(i)) }, t.Size, t}
		},
		func() relTree {
			s := Schema{Fields: []FieldType{FU64}, Str: true}
			t := art.NewCompoundTree[Tuple, *payload](SchemaCodec{S: s})
			mk := func(i int) Tuple { return Tuple{N: []Num{{T: FU64, U: uint64(i % 7)}}, S: key(i)} }
			return relTree{"compound[u64,str]", func(i int, p *payload) { t.Insert(mk(i), p) }, func(i int) bool { return t.Delete(mk(i)) }, t.Size, t}
		},
	}
}

// ReleaseJobs names the jobs of this file.
func ReleaseJobs() []string {
	var out []string
	for _, mk := range relTrees() {
		out = append(out, "release/"+mk().name)
	}
	out = append(out, "bulk/unsigned[uint64]", "bulk/alpha[string]", "bulk/collation[string]")
	return append(out, "spread/alpha[string]", "spread/alpha[[]byte]", "spread/collation[string]", "spread/collation[[]byte]", "spread/compound[u64,str]")
}

func exploreRelease(job, tier string, res *Result) {
	st := &res.Stats
	var mkTree func() relTree
	for _, mk := range relTrees() {
		if "release/"+mk().name == job {
			mkTree = mk
		}
	}
	if mkTree == nil {
		res.HarnessErr = "no release job " + job
		return
	}
	type variant struct {
		name string
		run  func(t relTree) string
	}
	small := &payload{tag: -1}
	order := func(name string, idx func(n int) int) variant {
		return variant{"insert " + fmt.Sprint(relKeys) + " keys with 16 KiB values, delete all of them " + name, func(t relTree) string {
			for n := 0; n < relKeys; n++ {
				if !t.delete(idx(n)) {
					return "Delete of a stored key = false"
				}
			}
			return ""
		}}
	}
	variants := []variant{
		order("in ascending order", func(n int) int { return n }),
		order("in descending order", func(n int) int { return relKeys - 1 - n }),
		order("in a scattered order", func(n int) int { return n * 7 % relKeys }),
		{"insert " + fmt.Sprint(relKeys) + " keys with 16 KiB values, overwrite every value with one small shared value", func(t relTree) string {
			for n := 0; n < relKeys; n++ {
				t.insert(n, small)
			}
			return ""
		}},
		{"insert " + fmt.Sprint(relKeys) + " keys with 16 KiB values, delete all, insert them again with a small shared value, delete all", func(t relTree) string {
			for n := 0; n < relKeys; n++ {
				t.delete(n)
			}
			for n := 0; n < relKeys; n++ {
				t.insert(n, small)
			}
			for n := 0; n < relKeys; n++ {
				t.delete(n)
			}
			return ""
		}},
	}
	maxKept := int64(0)
	measure := func(v variant) (int64, string) {
		t := mkTree()
		// warm-up outside the measurement (lazy tables, first growth of buffers)
		t.insert(0, small)
		t.delete(0)
		before := liveHeap()
		for n := 0; n < relKeys; n++ {
			t.insert(n, &payload{tag: n})
		}
		full := liveHeap()
		if full-before < relKeys*relPayload/2 {
			return 0, "" // the tree does not even hold the values: owned by C01
		}
		if msg := v.run(t); msg != "" {
			return 0, "" // owned by C01
		}
		after := liveHeap()
		runtime.KeepAlive(t.keep)
		runtime.KeepAlive(small)
		return after - before, t.name
	}
	for _, v := range variants {
		st.Evaluations++
		st.Nontrivial++
		kept, name := measure(v)
		if kept > maxKept {
			maxKept = kept
		}
		if kept > relThreshold {
			if k2, _ := measure(v); k2 <= relThreshold {
				// retained the first time only: something outside the tree (package level) keeps it and is reused the second
				// time. Confirmed at job level: the runner repeats the whole job in a fresh process.
				u := viol("live heap still reachable after the values left the tree, the first time in a process only; "+name+": "+v.name,
					fmt.Sprintf("<= %d bytes (measured: %d bytes the first time, %d when repeated in the same process)", relThreshold, kept, k2), fmt.Sprintf("more than %d bytes", relThreshold))
				u.Property, u.Universe, u.Tier = "C17", job, tier
				u.Tags = []string{"crash"}
				res.Unconfirmed = u
				res.HarnessErr = "first-use retention, to be confirmed by re-running the job"
				st.Exhaustive = false
				return
			}
			viol := viol("live heap still reachable from the tree; "+name+": "+v.name, fmt.Sprintf("<= %d bytes more than before the keys were inserted (the values are gone from the tree)", relThreshold),
				fmt.Sprintf("%d bytes (%.1f values of 16 KiB)", kept, float64(kept)/relPayload))
			viol.Property, viol.Universe, viol.Tier = "C17", job, tier
			viol.Tags = []string{"crash"}
			res.Violations = append(res.Violations, viol)
			st.Exhaustive = false
			return
		}
	}
	st.Extra = map[string]float64{"max_retained_bytes_after_values_left_the_tree": float64(maxKept)}
	st.Samples = append(st.Samples, fmt.Sprintf("%s: %d variants (delete orders, overwrite, delete/re-insert), %d keys with 16 KiB values each", job, len(variants), relKeys))
}

func exploreBulk(job, tier string, res *Result) {
	st := &res.Stats
	type bulk struct {
		insert func(i int)
		delete func(i int) bool
		size   func() int
		keep   any
	}
	var mk func() bulk
	skey := func(i int) string { return fmt.Sprintf("%c%c/%06d", byte('!'+i%90), byte('!'+(i/90)%90), i) }
	switch job {
	case "bulk/unsigned[uint64]":
		mk = func() bulk {
			t := art.NewUnsignedBinaryTree[uint64, int]()
			return bulk{func(i int) { t.Insert(uint64(i), i) }, func(i int) bool { return t.Delete(uint64(i)) }, t.Size, t}
		}
	case "bulk/alpha[string]":
		mk = func() bulk {
			t := art.NewAlphaSortedTree[string, int]()
			return bulk{func(i int) { t.Insert(skey(i), i) }, func(i int) bool { return t.Delete(skey(i)) }, t.Size, t}
		}
	case "bulk/collation[string]":
		mk = func() bulk {
			t := art.NewCollationSortedTree[string, int]()
			return bulk{func(i int) { t.Insert(skey(i), i) }, func(i int) bool { return t.Delete(skey(i)) }, t.Size, t}
		}
	default:
		res.HarnessErr = "no bulk job " + job
		return
	}
	n := bulkKeys
	if job == "bulk/collation[string]" {
		n = bulkKeys / 4
	}
	orders := []struct {
		name string
		idx  func(k int) int
	}{
		{"ascending", func(k int) int { return k }},
		{"descending", func(k int) int { return n - 1 - k }},
		{"scattered", func(k int) int { return int(uint64(k) * 7919 % uint64(n)) }},
	}
	maxKept := int64(0)
	measure := func(o int) int64 {
		t := mk()
		t.insert(0)
		t.delete(0)
		before := liveHeap()
		for i := 0; i < n; i++ {
			t.insert(i)
		}
		for k := 0; k < n; k++ {
			if !t.delete(orders[o].idx(k)) {
				return 0 // owned by C01
			}
		}
		if t.size() != 0 {
			return 0 // owned by C06
		}
		after := liveHeap()
		runtime.KeepAlive(t.keep)
		return after - before
	}
	for o := range orders {
		st.Evaluations++
		st.Nontrivial++
		kept := measure(o)
		if kept > maxKept {
			maxKept = kept
		}
		if kept > relThreshold {
			if k2 := measure(o); k2 <= relThreshold {
				u := viol(fmt.Sprintf("live heap after a tree of %d keys was emptied by deletion in %s order (%s), the first time in a process only", n, orders[o].name, job),
					fmt.Sprintf("<= %d bytes (measured: %d bytes the first time, %d when repeated in the same process: kept outside the tree and reused)", relThreshold, kept, k2), fmt.Sprintf("more than %d bytes", relThreshold))
				u.Property, u.Universe, u.Tier = "C17", job, tier
				u.Tags = []string{"crash"}
				res.Unconfirmed = u
				res.HarnessErr = "first-use retention, to be confirmed by re-running the job"
				st.Exhaustive = false
				return
			}
			v := viol(fmt.Sprintf("live heap after a tree of %d keys was emptied by deletion in %s order (%s)", n, orders[o].name, job),
				fmt.Sprintf("<= %d bytes more than before the keys were inserted", relThreshold), fmt.Sprintf("%d bytes", kept))
			v.Property, v.Universe, v.Tier = "C17", job, tier
			v.Tags = []string{"crash"}
			res.Violations = append(res.Violations, v)
			st.Exhaustive = false
			return
		}
	}
	st.Extra = map[string]float64{"max_retained_bytes_after_bulk_tree_emptied": float64(maxKept)}
	st.Samples = append(st.Samples, fmt.Sprintf("%s: %d keys inserted, deleted in 3 orders", job, n))
}

// ExploreRelease runs one release/ or bulk/ job.
func ExploreRelease(job, tier string, deadline time.Duration) *Result {
	start := time.Now()
	debug.SetGCPercent(100)
	runtime.GOMAXPROCS(1)
	res := &Result{Universe: job, Property: "C17"}
	res.Stats.Exhaustive = true
	defer func() { res.Stats.WallS = time.Since(start).Seconds() }()
	if len(job) > 5 && job[:5] == "bulk/" {
		exploreBulk(job, tier, res)
	} else if len(job) > 7 && job[:7] == "spread/" {
		exploreSpread(job, tier, res)
	} else {
		exploreRelease(job, tier, res)
	}
	return res
}

// spread/<kind>: a bounded key set whose keys are (re)inserted at widely spaced moments of a long history, with
// read-only queries in between, and whose key strings are cut out of large short-lived pages (fields of a scanned
// input). What the tree holds at the end is what it held after the build; the heap may not have grown, and the
// build itself may keep only the keys, not the pages they came from.
const (
	spreadKeys = 1000
	spreadPage = 64 << 10
)

func exploreSpread(job, tier string, res *Result) {
	st := &res.Stats
	type tr struct {
		insert func(k string)
		delete func(k string) bool
		search func(k string) bool
		keep   any
	}
	var mk func() tr
	switch job {
	case "spread/alpha[string]":
		mk = func() tr {
			t := art.NewAlphaSortedTree[string, int]()
			return tr{func(k string) { t.Insert(k, 1) }, func(k string) bool { return t.Delete(k) }, func(k string) bool { _, ok := t.Search(k); return ok }, t}
		}
	case "spread/alpha[[]byte]":
		mk = func() tr {
			t := art.NewAlphaSortedTree[[]byte, int]()
			// the key as a scanner hands it over: a short window into a large buffer, with all the spare capacity behind it
			b := func(k string) []byte {
				d := unsafe.StringData(k)
				if len(k) > 64 {
					return unsafe.Slice(d, len(k)) // the long probe is a string of its own, not a window into a page
				}
				return unsafe.Slice(d, len(k)+2048)[:len(k)]
			}
			return tr{func(k string) { t.Insert(b(k), 1) }, func(k string) bool { return t.Delete(b(k)) }, func(k string) bool { _, ok := t.Search(b(k)); return ok }, t}
		}
	case "spread/collation[string]":
		mk = func() tr {
			t := art.NewCollationSortedTree[string, int]()
			return tr{func(k string) { t.Insert(k, 1) }, func(k string) bool { return t.Delete(k) }, func(k string) bool { _, ok := t.Search(k); return ok }, t}
		}
	case "spread/collation[[]byte]":
		mk = func() tr {
			t := art.NewCollationSortedTree[[]byte, int]()
			b := func(k string) []byte { return unsafe.Slice(unsafe.StringData(k), len(k)) } // a view into the page, like a scanner token
			return tr{func(k string) { t.Insert(b(k), 1) }, func(k string) bool { return t.Delete(b(k)) }, func(k string) bool { _, ok := t.Search(b(k)); return ok }, t}
		}
	case "spread/compound[u64,str]":
		mk = func() tr {
			sc := Schema{Fields: []FieldType{FU64}, Str: true}
			t := art.NewCompoundTree[Tuple, int](SchemaCodec{S: sc})
			m := func(k string) Tuple { return Tuple{N: []Num{{T: FU64, U: 7}}, S: k} }
			return tr{func(k string) { t.Insert(m(k), 1) }, func(k string) bool { return t.Delete(m(k)) }, func(k string) bool { _, ok := t.Search(m(k)); return ok }, t}
		}
	default:
		res.HarnessErr = "no spread job " + job
		return
	}
	// a key string that is a substring of a fresh page; the page itself is dropped by the caller
	cut := func(i int) string {
		page := make([]byte, spreadPage)
		for j := range page {
			page[j] = '.'
		}
		k := fmt.Sprintf("field-%06d", i*7919%1000000)
		off := (i * 131) % (spreadPage - len(k) - 4096)
		copy(page[off:], k)
		s := string(page) // one allocation of page size; the key is a view into it
		return s[off : off+len(k)]
	}
	measure := func() (build, churn int64, ok bool) {
		t := mk()
		t.insert(cut(spreadKeys + 1))
		t.delete(cut(spreadKeys + 1))
		// one very long absent key is queried before anything is stored (whatever a tree sizes after the longest key it
		// has SEEN must not be charged to every key it stores later); its own legitimate cost, e.g. a grown collation
		// buffer, lies before the first measurement
		long := strings.Repeat("q", 24<<10)
		t.search(long)
		t.delete(long)
		before := liveHeap()
		for i := 0; i < spreadKeys; i++ {
			t.insert(cut(i))
		}
		built := liveHeap()
		for n := 0; n < spreadKeys; n++ {
			i := n * 389 % spreadKeys
			if !t.delete(cut(i)) {
				return 0, 0, false // owned by C01
			}
			t.insert(cut(i))
			for q := 1; q <= 30; q++ {
				if !t.search(cut((i + q*37) % spreadKeys)) {
					return 0, 0, false
				}
			}
		}
		after := liveHeap()
		runtime.KeepAlive(t.keep)
		return built - before, after - built, true
	}
	st.Evaluations += 2
	st.Nontrivial += 2
	build, churn, ok := measure()
	if !ok {
		return
	}
	// per key: the stored bytes, a leaf, its share of inner nodes (collation: a sort key as well); never a page
	buildLimit := int64(spreadKeys*512 + relThreshold)
	churnLimit := int64(relThreshold + spreadPage) // the collation codec legitimately remembers the last key it saw
	report := func(what string, limit, got int64) {
		b2, c2, _ := measure()
		again := b2
		if what[0] == 'c' {
			again = c2
		}
		if again <= limit {
			res.HarnessErr = fmt.Sprintf("heap measurement did not reproduce: %s: %d then %d bytes", what, got, again)
			return
		}
		v := viol(job+": "+what, fmt.Sprintf("<= %d bytes", limit), fmt.Sprintf("%d bytes", got))
		v.Property, v.Universe, v.Tier = "C17", job, tier
		v.Tags = []string{"crash"}
		res.Violations = append(res.Violations, v)
		st.Exhaustive = false
	}
	if build > buildLimit {
		report(fmt.Sprintf("build: live heap added by inserting %d keys of 12 bytes, each cut out of its own %d-byte page that the caller dropped right away", spreadKeys, spreadPage), buildLimit, build)
		return
	}
	if churn > churnLimit {
		report(fmt.Sprintf("churn: live heap growth while each of the %d keys was deleted and re-inserted once, 30 searches after each, content unchanged", spreadKeys), churnLimit, churn)
		return
	}
	st.Extra = map[string]float64{"retained_bytes_after_build": float64(build), "growth_bytes_during_spread_churn": float64(churn)}
	st.Samples = append(st.Samples, fmt.Sprintf("%s: %d keys cut out of %d-byte pages; each deleted and re-inserted once with 30 searches in between", job, spreadKeys, spreadPage))
}
