package hist

import (
	"fmt"
	"math"
	"strconv"
	"strings"

	art "github.com/Clement-Jean/go-art"
)

// C18: stored keys and values of any type survive garbage collection intact.
// The collector is an explicit, enumerated environment event: a forced
// collection after every operation of every replay (and, thorough, every
// subset of positions for histories up to 8 operations), with
// GODEBUG=clobberfree=1 (freed objects are overwritten) and a checkptr build.

type boxed struct {
	n   int
	pad [3]uint64
}

type rich struct {
	p *boxed
	s string
	b []byte
}

type big [24]uint64

func valString(i int) string { return "value-" + strconv.Itoa(i) + "-" + strings.Repeat("x", 20) }

func readString(s string) int {
	if !strings.HasPrefix(s, "value-") || !strings.HasSuffix(s, "-"+strings.Repeat("x", 20)) {
		return -1
	}
	n, err := strconv.Atoi(s[6 : len(s)-21])
	if err != nil {
		return -1
	}
	return n
}

var (
	vsInt    = &ValSpec[int]{Name: "int", Make: func(i int) int { return i }, Read: func(v int) int { return v }}
	vsString = &ValSpec[string]{Name: "string", Make: valString, Read: readString}
	vsPtr    = &ValSpec[*boxed]{Name: "*struct", Make: func(i int) *boxed { return &boxed{n: i, pad: [3]uint64{uint64(i), ^uint64(i), 7}} }, Read: func(p *boxed) int {
		if p == nil || p.pad != [3]uint64{uint64(p.n), ^uint64(p.n), 7} {
			return -1
		}
		return p.n
	}}
	vsBytes = &ValSpec[[]byte]{Name: "[]byte", Make: func(i int) []byte { return []byte(valString(i)) }, Read: func(b []byte) int { return readString(string(b)) }}
	vsEmpty = &ValSpec[struct{}]{Name: "struct{}", Make: func(i int) struct{} { return struct{}{} }, Read: func(struct{}) int { return 1 }}
	vsBig   = &ValSpec[big]{Name: "[24]uint64", Make: func(i int) big {
		var b big
		for j := range b {
			b[j] = uint64(i)*1000003 + uint64(j)
		}
		return b
	}, Read: func(b big) int {
		i := b[0] / 1000003
		for j := range b {
			if b[j] != i*1000003+uint64(j) {
				return -1
			}
		}
		return int(i)
	}}
	// sizes that are not a multiple of the word size (leaf fields behind the value get unusual offsets)
	vsInt8 = &ValSpec[int8]{Name: "int8", Make: func(i int) int8 { return int8(i) }, Read: func(v int8) int { return int(v) }}
	vsTri  = &ValSpec[[3]byte]{Name: "[3]byte", Make: func(i int) [3]byte { return [3]byte{byte(i), byte(i) ^ 0x5a, 0xc3} }, Read: func(v [3]byte) int {
		if v[1] != v[0]^0x5a || v[2] != 0xc3 {
			return -1
		}
		return int(v[0])
	}}
	// a value whose only varying byte lies behind the last full machine word
	vsTail = &ValSpec[[11]byte]{Name: "[11]byte", Make: func(i int) [11]byte {
		return [11]byte{1, 2, 3, 4, 5, 6, 7, 8, 9, 10, byte(i)}
	}, Read: func(v [11]byte) int {
		if v != [11]byte{1, 2, 3, 4, 5, 6, 7, 8, 9, 10, v[10]} {
			return -1
		}
		return int(v[10])
	}}
	vsRich = &ValSpec[rich]{Name: "struct{ptr,string,slice}", Make: func(i int) rich {
		return rich{p: vsPtr.Make(i), s: valString(i), b: []byte(valString(i))}
	}, Read: func(r rich) int {
		a, b, c := vsPtr.Read(r.p), readString(r.s), readString(string(r.b))
		if a != b || b != c {
			return -1
		}
		return a
	}}
)

// value types of an uncomparable dynamic type behind `any` (comparing two of them as interfaces panics)
var vsAny = &ValSpec[any]{Name: "any([]int)", Make: func(i int) any { return []int{i, i + 1} }, Read: func(v any) int {
	s, ok := v.([]int)
	if !ok || len(s) != 2 || s[1] != s[0]+1 {
		return -1
	}
	return s[0]
}}

// ValueTypeUniverses: overwrite-rich closures (two values per key) with value types other than int, for the map
// properties: byte slices, `any` holding a slice, a value whose varying byte lies behind its last full word, a pointer.
func ValueTypeUniverses() []UniverseDef {
	var out []UniverseDef
	P := func(n int) string { return rep('p', n) }
	alpha := AlphaSpec{Name: "VALTYPES", Free: []string{"k", "ka", P(11) + "1", P(11) + "2"}, NVals: 2, NoAutoP: true}
	addAlpha := func(name string, mk func(spec *KeySpec[string], index map[string]int) Driver) {
		out = append(out, UniverseDef{Name: "alpha[string]/VALTYPES/V=" + name, Build: func() *Universe {
			u := NewAlphaUniverseD(alpha, "string", mk, nil)
			u.Name += "/V=" + name
			return u
		}})
	}
	addAlpha(vsBytes.Name, func(spec *KeySpec[string], index map[string]int) Driver {
		return NewDriverV[string, []byte](art.NewAlphaSortedTree[string, []byte](), spec, index, vsBytes)
	})
	addAlpha(vsAny.Name, func(spec *KeySpec[string], index map[string]int) Driver {
		return NewDriverV[string, any](art.NewAlphaSortedTree[string, any](), spec, index, vsAny)
	})
	addAlpha(vsTail.Name, func(spec *KeySpec[string], index map[string]int) Driver {
		return NewDriverV[string, [11]byte](art.NewAlphaSortedTree[string, [11]byte](), spec, index, vsTail)
	})
	fops := floatOps[float64](func(k float64) []byte { _, b := art.FloatBinaryKey[float64]{}.Transform(k); return b })
	fsp := NumSpec[float64]{Name: "VALTYPES", Free: []float64{math.NaN(), -1.5, math.Copysign(0, -1), 0}, NVals: 2}
	out = append(out, UniverseDef{Name: "float[float64]/VALTYPES/V=" + vsAny.Name, Build: func() *Universe {
		u := NewNumUniverseD("float", "float64", fsp, fops, func(spec *KeySpec[float64], index map[string]int) Driver {
			return NewDriverV[float64, any](art.NewFloatBinaryTree[float64, any](), spec, index, vsAny)
		})
		u.Name += "/V=" + vsAny.Name
		return u
	}})
	iops := intOps[int16](func(k int16) []byte { _, b := art.SignedBinaryKey[int16]{}.Transform(k); return b })
	isp := NumSpec[int16]{Name: "VALTYPES", Free: []int16{-256, -1, 0, 255}, NVals: 2}
	out = append(out, UniverseDef{Name: "signed[int16]/VALTYPES/V=" + vsBytes.Name, Build: func() *Universe {
		u := NewNumUniverseD("signed", "int16", isp, iops, func(spec *KeySpec[int16], index map[string]int) Driver {
			return NewDriverV[int16, []byte](art.NewSignedBinaryTree[int16, []byte](), spec, index, vsBytes)
		})
		u.Name += "/V=" + vsBytes.Name
		return u
	}})
	out = append(out, UniverseDef{Name: "signed[int16]/VALTYPES/V=" + vsTail.Name, Build: func() *Universe {
		u := NewNumUniverseD("signed", "int16", isp, iops, func(spec *KeySpec[int16], index map[string]int) Driver {
			return NewDriverV[int16, [11]byte](art.NewSignedBinaryTree[int16, [11]byte](), spec, index, vsTail)
		})
		u.Name += "/V=" + vsTail.Name
		return u
	}})
	und := Collators()[0]
	coll := CollSpec{Name: "VALTYPES", NVals: 2, Free: []string{"a", "A", "ab", rep('p', 16) + "x"}}
	out = append(out, UniverseDef{Name: "collation[string,und]/VALTYPES/V=" + vsAny.Name, Build: func() *Universe {
		u := NewCollUniverseD(coll, und, "string", false, func(spec *KeySpec[string], index map[string]int) Driver {
			return NewDriverV[string, any](art.NewCollationSortedTree[string, any](), spec, index, vsAny)
		})
		u.Name += "/V=" + vsAny.Name
		return u
	}})
	return out
}

// c18Kinds builds, for one value type, the universes of every tree kind.
func c18Kinds[V any](vs *ValSpec[V], tier string) []UniverseDef {
	var out []UniverseDef
	P := func(n int) string { return rep('p', n) }
	tag := "/V=" + vs.Name
	keyOnly := vs.Name == "int" || vs.Name == "string"
	nv := 2 // two values per key: overwriting a present key is a transition of its own
	if vs.Name == "struct{}" {
		nv = 1 // all values of the empty struct are one value
	}
	// two values per key: overwriting a present key is a transition of its own for every value type
	alpha := AlphaSpec{Name: "GC5", Free: []string{"a", "ab", P(12) + "x", P(12) + "y"}, Probes: []string{P(12)}, NoAutoP: true, Prefixes: []string{"a", P(12)}, NVals: nv}
	fan := FanUniverse(FanSpec{Name: "GCFAN48@14", Hold: 14, Extra: 3, Present: 2, Absent: 2})
	fan.NoAutoP = true
	// compressed paths far longer than a node (pointer arithmetic on the inline path must stay inside it)
	vlong := AlphaSpec{Name: "GCVERYLONG", Setup: []string{P(300) + "m1", P(300) + "m2", P(300) + "m3", P(300) + "m4", P(300) + "m5"},
		Free: []string{P(100) + "a", P(100) + "b", P(100) + "c", P(300) + "x"}, Probes: []string{P(100)}, NoAutoP: true, Prefixes: []string{P(100), P(300)}}
	// keys whose stored form exactly fills an allocation size class (24, 32, 48 bytes) behind a long shared path:
	// a read a few bytes past the end of a key leaves its allocation
	exact := AlphaSpec{Name: "GCEXACTFIT", Free: []string{P(22) + "a", P(22) + "b", P(30) + "c", P(46) + "d", P(14) + "e"}, Probes: []string{P(12), P(22)}, NoAutoP: true,
		Prefixes: []string{P(11), P(12), P(22), P(23)}}
	// a 48-way node filled to the last slot and emptied from there again (slot numbers are index bytes minus one)
	fan46 := FanUniverse(FanSpec{Name: "GCFAN48@46", Hold: 46, Present: 2, Absent: 3})
	fan46.NoAutoP = true
	for _, kt := range []string{"string", "[]byte"} {
		kt := kt
		for _, sp := range []AlphaSpec{alpha, fan, vlong, exact, fan46} {
			sp := sp
			if kt == "[]byte" && sp.Name != "GC5" {
				continue
			}
			if (sp.Name == "GCEXACTFIT" || sp.Name == "GCFAN48@46") && !keyOnly {
				continue // about key storage / slot arithmetic, not values
			}
			out = append(out, UniverseDef{Name: "alpha[" + kt + "]/" + sp.Name + tag, Build: func() *Universe {
				u := NewAlphaUniverseD(sp, kt,
					func(spec *KeySpec[string], index map[string]int) Driver {
						return NewDriverV[string, V](art.NewAlphaSortedTree[string, V](), spec, index, vs)
					},
					func(spec *KeySpec[[]byte], index map[string]int) Driver {
						return NewDriverV[[]byte, V](art.NewAlphaSortedTree[[]byte, V](), spec, index, vs)
					})
				u.Name += tag
				return u
			}})
		}
	}
	und := Collators()[0]
	coll := CollSpec{Name: "GC5", Prefix: true, NVals: nv, Free: []string{"a", "A", rep('p', 16) + "x", rep('p', 16) + "X"}, Probes: []string{"b"},
		Prefixes: []string{rep('p', 16), rep('p', 12), "a"}}
	out = append(out, UniverseDef{Name: "collation[string,und]/GC5" + tag, Build: func() *Universe {
		u := NewCollUniverseD(coll, und, "string", false, func(spec *KeySpec[string], index map[string]int) Driver {
			return NewDriverV[string, V](art.NewCollationSortedTree[string, V](), spec, index, vs)
		})
		u.Name += tag
		return u
	}})
	if keyOnly {
		// the hand-written collation lookups through a 48-way node with inner nodes below
		cf := collFan("GCCFAN48", 20)
		out = append(out, UniverseDef{Name: "collation[string,und]/GCCFAN48" + tag, Build: func() *Universe {
			u := NewCollUniverseD(cf, und, "string", false, func(spec *KeySpec[string], index map[string]int) Driver {
				return NewDriverV[string, V](art.NewCollationSortedTree[string, V](), spec, index, vs)
			})
			u.Name += tag
			return u
		}})
	}
	uops := intOps[uint64](func(k uint64) []byte { _, b := art.UnsignedBinaryKey[uint64]{}.Transform(k); return b })
	out = append(out, UniverseDef{Name: "unsigned[uint64]/GC5" + tag, Build: func() *Universe {
		u := NewNumUniverseD("unsigned", "uint64", NumSpec[uint64]{Name: "GC5", Free: []uint64{0, 1, 1 << 40, 1<<40 + 1}, Probes: []uint64{2}, NVals: nv}, uops,
			func(spec *KeySpec[uint64], index map[string]int) Driver {
				return NewDriverV[uint64, V](art.NewUnsignedBinaryTree[uint64, V](), spec, index, vs)
			})
		u.Name += tag
		return u
	}})
	iops := intOps[int32](func(k int32) []byte { _, b := art.SignedBinaryKey[int32]{}.Transform(k); return b })
	out = append(out, UniverseDef{Name: "signed[int32]/GC5" + tag, Build: func() *Universe {
		u := NewNumUniverseD("signed", "int32", NumSpec[int32]{Name: "GC5", Free: []int32{math.MinInt32, -1, 0, 1, 65536}, Probes: []int32{2}}, iops,
			func(spec *KeySpec[int32], index map[string]int) Driver {
				return NewDriverV[int32, V](art.NewSignedBinaryTree[int32, V](), spec, index, vs)
			})
		u.Name += tag
		return u
	}})
	if keyOnly {
		// every key width: an encoder that writes a machine word into a narrower buffer leaves the buffer's allocation
		u16 := intOps[uint16](func(k uint16) []byte { _, b := art.UnsignedBinaryKey[uint16]{}.Transform(k); return b })
		out = append(out, UniverseDef{Name: "unsigned[uint16]/GC5" + tag, Build: func() *Universe {
			u := NewNumUniverseD("unsigned", "uint16", NumSpec[uint16]{Name: "GC5", Free: []uint16{0, 1, 256, 257, math.MaxUint16}, Probes: []uint16{2}}, u16,
				func(spec *KeySpec[uint16], index map[string]int) Driver {
					return NewDriverV[uint16, V](art.NewUnsignedBinaryTree[uint16, V](), spec, index, vs)
				})
			u.Name += tag
			return u
		}})
		u32 := intOps[uint32](func(k uint32) []byte { _, b := art.UnsignedBinaryKey[uint32]{}.Transform(k); return b })
		out = append(out, UniverseDef{Name: "unsigned[uint32]/GC5" + tag, Build: func() *Universe {
			u := NewNumUniverseD("unsigned", "uint32", NumSpec[uint32]{Name: "GC5", Free: []uint32{0, 1, 1 << 20, 1<<20 + 1, math.MaxUint32}, Probes: []uint32{2}}, u32,
				func(spec *KeySpec[uint32], index map[string]int) Driver {
					return NewDriverV[uint32, V](art.NewUnsignedBinaryTree[uint32, V](), spec, index, vs)
				})
			u.Name += tag
			return u
		}})
		u8 := intOps[uint8](func(k uint8) []byte { _, b := art.UnsignedBinaryKey[uint8]{}.Transform(k); return b })
		out = append(out, UniverseDef{Name: "unsigned[uint8]/GC5" + tag, Build: func() *Universe {
			u := NewNumUniverseD("unsigned", "uint8", NumSpec[uint8]{Name: "GC5", Free: []uint8{0, 1, 127, 128, 255}, Probes: []uint8{2}}, u8,
				func(spec *KeySpec[uint8], index map[string]int) Driver {
					return NewDriverV[uint8, V](art.NewUnsignedBinaryTree[uint8, V](), spec, index, vs)
				})
			u.Name += tag
			return u
		}})
		i8 := intOps[int8](func(k int8) []byte { _, b := art.SignedBinaryKey[int8]{}.Transform(k); return b })
		out = append(out, UniverseDef{Name: "signed[int8]/GC5" + tag, Build: func() *Universe {
			u := NewNumUniverseD("signed", "int8", NumSpec[int8]{Name: "GC5", Free: []int8{math.MinInt8, -1, 0, 1, math.MaxInt8}, Probes: []int8{2}}, i8,
				func(spec *KeySpec[int8], index map[string]int) Driver {
					return NewDriverV[int8, V](art.NewSignedBinaryTree[int8, V](), spec, index, vs)
				})
			u.Name += tag
			return u
		}})
		i16 := intOps[int16](func(k int16) []byte { _, b := art.SignedBinaryKey[int16]{}.Transform(k); return b })
		out = append(out, UniverseDef{Name: "signed[int16]/GC5" + tag, Build: func() *Universe {
			u := NewNumUniverseD("signed", "int16", NumSpec[int16]{Name: "GC5", Free: []int16{math.MinInt16, -1, 0, 1, 256}, Probes: []int16{2}}, i16,
				func(spec *KeySpec[int16], index map[string]int) Driver {
					return NewDriverV[int16, V](art.NewSignedBinaryTree[int16, V](), spec, index, vs)
				})
			u.Name += tag
			return u
		}})
		i64 := intOps[int64](func(k int64) []byte { _, b := art.SignedBinaryKey[int64]{}.Transform(k); return b })
		out = append(out, UniverseDef{Name: "signed[int64]/GC5" + tag, Build: func() *Universe {
			u := NewNumUniverseD("signed", "int64", NumSpec[int64]{Name: "GC5", Free: []int64{math.MinInt64, -1, 0, 1, 1 << 40}, Probes: []int64{2}}, i64,
				func(spec *KeySpec[int64], index map[string]int) Driver {
					return NewDriverV[int64, V](art.NewSignedBinaryTree[int64, V](), spec, index, vs)
				})
			u.Name += tag
			return u
		}})
		f32 := floatOps[float32](func(k float32) []byte { _, b := art.FloatBinaryKey[float32]{}.Transform(k); return b })
		out = append(out, UniverseDef{Name: "float[float32]/GC5" + tag, Build: func() *Universe {
			u := NewNumUniverseD("float", "float32", NumSpec[float32]{Name: "GC5", Free: []float32{float32(math.NaN()), -1.5, float32(math.Copysign(0, -1)), 0, float32(math.Inf(1))}, Probes: []float32{1}}, f32,
				func(spec *KeySpec[float32], index map[string]int) Driver {
					return NewDriverV[float32, V](art.NewFloatBinaryTree[float32, V](), spec, index, vs)
				})
			u.Name += tag
			return u
		}})
	}
	fops := floatOps[float64](func(k float64) []byte { _, b := art.FloatBinaryKey[float64]{}.Transform(k); return b })
	out = append(out, UniverseDef{Name: "float[float64]/GC5" + tag, Build: func() *Universe {
		u := NewNumUniverseD("float", "float64", NumSpec[float64]{Name: "GC5", Free: []float64{math.NaN(), -1.5, math.Copysign(0, -1), 0}, Probes: []float64{1}, NVals: nv}, fops,
			func(spec *KeySpec[float64], index map[string]int) Driver {
				return NewDriverV[float64, V](art.NewFloatBinaryTree[float64, V](), spec, index, vs)
			})
		u.Name += tag
		return u
	}})
	long := Schema{Fields: []FieldType{FU64, FU64}, Str: true}
	mk := func(a, b uint64, s string) Tuple { return Tuple{N: []Num{{T: FU64, U: a}, {T: FU64, U: b}}, S: s} }
	tri := Schema{Fields: []FieldType{FU64, FU64, FU64}}
	mk3 := func(a, b, c uint64) Tuple { return Tuple{N: []Num{{T: FU64, U: a}, {T: FU64, U: b}, {T: FU64, U: c}}} }
	if keyOnly {
		out = append(out, UniverseDef{Name: "compound[u64,u64,u64]/GC24" + tag, Build: func() *Universe {
			u := NewCompoundUniverseD("GC24", tri, []Tuple{mk3(1, 2, 0x0101), mk3(1, 2, 0x0102), mk3(1, 2, 0x0201), mk3(1, 3, 0), mk3(2, 0, 0)}, []Tuple{mk3(1, 2, 0x0103)}, 1,
				func(codec SchemaCodec, spec *KeySpec[Tuple], index map[string]int) Driver {
					return NewDriverV[Tuple, V](art.NewCompoundTree[Tuple, V](codec), spec, index, vs)
				})
			u.Name += tag
			return u
		}})
	}
	out = append(out, UniverseDef{Name: "compound[u64,u64,str]/GC5" + tag, Build: func() *Universe {
		u := NewCompoundUniverseD("GC5", long, []Tuple{mk(7, 0x0101010101010100, "x"), mk(7, 0x0101010101010101, "x"), mk(8, 0, ""), mk(7, 0x0101010101010100, ""), mk(7, 0x0101010101020100, "q")}, []Tuple{mk(6, 0, "")}, 1,
			func(codec SchemaCodec, spec *KeySpec[Tuple], index map[string]int) Driver {
				return NewDriverV[Tuple, V](art.NewCompoundTree[Tuple, V](codec), spec, index, vs)
			})
		u.Name += tag
		return u
	}})
	return out
}

// C18Registry: every tree kind x nine value types.
func C18Registry(tier string) []UniverseDef {
	var out []UniverseDef
	out = append(out, c18Kinds(vsInt, tier)...)
	out = append(out, c18Kinds(vsString, tier)...)
	out = append(out, c18Kinds(vsPtr, tier)...)
	out = append(out, c18Kinds(vsBytes, tier)...)
	out = append(out, c18Kinds(vsEmpty, tier)...)
	out = append(out, c18Kinds(vsBig, tier)...)
	out = append(out, c18Kinds(vsRich, tier)...)
	out = append(out, c18Kinds(vsInt8, tier)...)
	out = append(out, c18Kinds(vsTri, tier)...)
	out = append(out, c18Kinds(vsTail, tier)...)
	return out
}

// MonC18: deep equality of every stored key and value with the reference,
// through Search, All, Backward, Range and the extremes, after forced collections.
type MonC18 struct{ Subsets bool }

func (MonC18) ID() string { return "C18" }

func (MonC18) Transition(x *Exec) *Violation { return MonC01{}.Transition(x) }

func c18Checks(x *Exec) *Violation {
	if v := (MonC01{}).State(x); v != nil {
		return v
	}
	if v := (MonC02{}).State(x); v != nil {
		return v
	}
	if v := (MonC05{}).Light(x, nil); v != nil {
		return v
	}
	if x.U.HasRange {
		if v := (MonC03{}).Light(x, nil); v != nil {
			return v
		}
	}
	if x.U.HasPrefix {
		if v := (MonC04{}).State(x); v != nil {
			return v
		}
	}
	return nil
}

func (m MonC18) State(x *Exec) *Violation {
	if v := c18Checks(x); v != nil {
		return v
	}
	// every subset of collection positions for short histories
	if m.Subsets && len(x.Path) > 0 && len(x.Path) <= 8 {
		n := len(x.Path)
		for mask := uint64(0); mask < 1<<uint(n); mask++ {
			d, ref, err := RebuildGC(x.U, x.Path, mask|1<<63)
			if err != nil {
				continue
			}
			y := &Exec{U: x.U, D: d, Ref: ref, Stats: x.Stats, Path: x.Path}
			if v := c18Checks(y); v != nil {
				v.What = fmt.Sprintf("[collections forced after the setup and after the operations in mask %b] %s", mask, v.What)
				return v
			}
		}
	}
	return nil
}
