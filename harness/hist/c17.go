package hist

import (
	"fmt"
	"runtime"
	"runtime/debug"
	"time"
)

// C17: memory held by a tree is proportional to its content, not its history.
// What is exhaustive: the set of (reachable state, operation cycle) pairs of
// small closures. The verdict per pair is a measurement (live heap after two
// forced collections) against a fixed threshold far from both behaviours.

const (
	c17Pump      = 40000    // repetitions of a cycle
	c17Threshold = 64 << 10 // bytes of growth tolerated per pumped cycle
	c17Trees     = 200      // emptied trees held alive for the emptiness clause
	c17PerTree   = 4 << 10  // retained bytes tolerated per emptied tree
	c17PerTreeCo = 32 << 10 // ... for collation trees (codec owns a 4 KiB buffer and collator state)
	c17WarmRound = 2000
)

func liveHeap() int64 {
	runtime.GC()
	runtime.GC()
	var m runtime.MemStats
	runtime.ReadMemStats(&m)
	return int64(m.HeapAlloc)
}

type cycle struct {
	name string
	f    func(d Driver)
}

func drain(s func(func(Pair) bool)) { s(func(Pair) bool { return true }) }

// cyclesFor lists the operation cycles of a state (each leaves the content unchanged).
func cyclesFor(u *Universe, ref *Ref) []cycle {
	var cs []cycle
	for _, q := range u.Probes {
		q := q
		cs = append(cs, cycle{fmt.Sprintf("Search(%s)", u.KeyStr[q]), func(d Driver) { d.Search(q) }})
	}
	cs = append(cs,
		cycle{"Minimum();Maximum();Size()", func(d Driver) { d.Min(); d.Max(); d.Size() }},
		cycle{"All()", func(d Driver) { drain(d.Seq(Query{Kind: SeqAll})) }},
		cycle{"Backward()", func(d Driver) { drain(d.Seq(Query{Kind: SeqBackward})) }},
		cycle{"TopK(2)", func(d Driver) { drain(d.Seq(Query{Kind: SeqTopK, N: 2})) }},
		cycle{"BottomK(2)", func(d Driver) { drain(d.Seq(Query{Kind: SeqBottomK, N: 2})) }},
		cycle{"All() abandoned after one element", func(d Driver) { d.Seq(Query{Kind: SeqAll})(func(Pair) bool { return false }) }},
		cycle{"Backward() abandoned after one element", func(d Driver) { d.Seq(Query{Kind: SeqBackward})(func(Pair) bool { return false }) }},
		cycle{"TopK(3) abandoned after one element", func(d Driver) { d.Seq(Query{Kind: SeqTopK, N: 3})(func(Pair) bool { return false }) }},
		cycle{"BottomK(3) abandoned after one element", func(d Driver) { d.Seq(Query{Kind: SeqBottomK, N: 3})(func(Pair) bool { return false }) }},
	)
	if u.HasPrefix {
		for i, p := range u.Prefixes {
			if i >= 3 {
				break
			}
			p := p
			cs = append(cs, cycle{fmt.Sprintf("Prefix(%s)", u.KeyStr[p]), func(d Driver) { drain(d.Seq(Query{Kind: SeqPrefix, A: p})) }})
			if i == 0 {
				cs = append(cs, cycle{fmt.Sprintf("Prefix(%s) abandoned after one element", u.KeyStr[p]), func(d Driver) { d.Seq(Query{Kind: SeqPrefix, A: p})(func(Pair) bool { return false }) }})
			}
		}
	}
	if (u.HasRange || u.Kind == "collation") && len(u.Bounds) >= 2 && ref.Len() > 0 {
		a, b := u.Bounds[0], u.Bounds[len(u.Bounds)-1]
		if u.RangeSkip == nil || !u.RangeSkip(a, b) {
			cs = append(cs, cycle{fmt.Sprintf("Range(%s,%s)", u.KeyStr[a], u.KeyStr[b]), func(d Driver) { drain(d.Seq(Query{Kind: SeqRange, A: a, B: b})) }})
			cs = append(cs, cycle{fmt.Sprintf("Range(%s,%s) abandoned after one element", u.KeyStr[a], u.KeyStr[b]), func(d Driver) { d.Seq(Query{Kind: SeqRange, A: a, B: b})(func(Pair) bool { return false }) }})
		}
	}
	for _, k := range append(append([]int{}, u.Free...), u.DelExtra...) {
		k := k
		if v, present := ref.Get(k); present {
			cs = append(cs, cycle{fmt.Sprintf("Insert(%s,·) overwrite", u.KeyStr[k]), func(d Driver) { d.Insert(k, v) }})
			cs = append(cs, cycle{fmt.Sprintf("Delete(%s);Insert(%s,·) churn", u.KeyStr[k], u.KeyStr[k]), func(d Driver) { d.Delete(k); d.Insert(k, v) }})
		} else {
			cs = append(cs, cycle{fmt.Sprintf("Delete(%s) absent", u.KeyStr[k]), func(d Driver) { d.Delete(k) }})
		}
	}
	return cs
}

type MonNop struct{ id string }

func (m MonNop) ID() string                  { return m.id }
func (MonNop) Transition(x *Exec) *Violation { return nil }
func (MonNop) State(x *Exec) *Violation      { return nil }

// ExploreHeap is the C17 job for one universe.
func ExploreHeap(u *Universe, tier string, deadline time.Duration) *Result {
	start := time.Now()
	var paths [][]Op
	cfg := Config{Tier: tier, RawVariants: 1, MaxStates: 5000, OnState: func(p []Op) { paths = append(paths, append([]Op(nil), p...)) }}
	res := Explore(u, MonNop{"C17"}, cfg)
	if res.HarnessErr != "" {
		return res
	}
	paths = append([][]Op{nil}, paths...)
	debug.SetGCPercent(100)
	runtime.GOMAXPROCS(1)
	st := &res.Stats
	st.Samples = nil
	pump := pumpFor(tier)
	fail := func(v *Violation, path []Op) *Result {
		v.Property, v.Universe, v.Tier = "C17", u.Name, tier
		v.Path = path
		v.PathStr = u.PathString(path)
		v.SetupStr = u.PathString(u.Setup)
		res.Violations = append(res.Violations, v)
		st.Exhaustive = false
		st.CapHit = "stopped at first violation"
		return res
	}
	maxGrowth := int64(0)
	maxPerTree := int64(0)
	for _, path := range paths {
		if deadline > 0 && time.Since(start) > deadline {
			st.Exhaustive = false
			st.CapHit = "deadline " + deadline.String()
			break
		}
		if v := heapCheckState(u, path, pump, st, &maxGrowth, &maxPerTree); v != nil {
			// confirm once more before reporting (a measurement, so re-measured rather than assumed)
			if v2 := heapCheckState(u, path, pump, &Stats{}, new(int64), new(int64)); v2 != nil && v2.What == v.What {
				return fail(v, path)
			}
			res.HarnessErr = "heap measurement did not reproduce: " + v.String()
			return res
		}
	}
	st.WallS = time.Since(start).Seconds()
	st.Extra = map[string]float64{"max_growth_bytes_per_pumped_cycle": float64(maxGrowth), "max_retained_bytes_per_emptied_tree": float64(maxPerTree), "pump_repetitions": float64(pump)}
	if len(paths) > 1 {
		st.Samples = append(st.Samples, fmt.Sprintf("state {%s}: every operation cycle pumped %d times, live heap compared; then %d trees driven there, churned and emptied", u.PathString(paths[len(paths)-1]), pump, c17Trees))
	} else {
		st.Samples = append(st.Samples, "only the initial state")
	}
	return res
}

// heapCheckState measures every cycle of one state and the emptiness clause.
func heapCheckState(u *Universe, path []Op, pump int, st *Stats, maxGrowth, maxPerTree *int64) *Violation {
	d, ref, err := rebuild(u, path)
	if err != nil {
		return nil // faulty histories are owned by C01
	}
	cs := cyclesFor(u, ref)
	// one unmeasured warm-up round (lazy tables of the collator, first growth of scratch buffers)
	for _, c := range cs {
		for i := 0; i < c17WarmRound; i++ {
			if p := safely(func() { c.f(d) }); p != "" {
				return nil // owned by C01..C05
			}
		}
	}
	for _, c := range cs {
		before := liveHeap()
		gBefore := runtime.NumGoroutine()
		for i := 0; i < pump; i++ {
			c.f(d)
		}
		after := liveHeap()
		st.Evaluations++
		st.Nontrivial++
		// goroutines left behind (e.g. a pull-style iterator that is never stopped) pin their stacks and whatever they reference
		if gr := runtime.NumGoroutine() - gBefore; gr > pump/100 {
			return viol(fmt.Sprintf("goroutines left behind by %d repetitions of %s on content %s", pump, c.name, ref),
				"none (bounded, independent of the number of operations)", fmt.Sprintf("%d more goroutines than before, each keeping its stack alive", gr))
		}
		g := after - before
		if g > *maxGrowth {
			*maxGrowth = g
		}
		if g > c17Threshold {
			return viol(fmt.Sprintf("live heap growth over %d repetitions of %s on content %s", pump, c.name, ref),
				fmt.Sprintf("<= %d bytes (bounded, independent of the number of operations)", c17Threshold), fmt.Sprintf("%d bytes (%.1f per repetition)", g, float64(g)/float64(pump)))
		}
	}
	runtime.KeepAlive(d)
	// emptiness: trees driven to this state, churned, then emptied by deletion retain a small constant
	before := liveHeap()
	trees := make([]Driver, 0, c17Trees)
	for t := 0; t < c17Trees; t++ {
		td, tref, err := rebuild(u, path)
		if err != nil {
			return nil
		}
		present := tref.Sorted()
		for round := 0; round < 20; round++ {
			for _, p := range present {
				td.Delete(p.K)
				td.Insert(p.K, p.V)
			}
		}
		for _, p := range present {
			td.Delete(p.K)
		}
		if td.Size() != 0 {
			return nil // owned by C06
		}
		trees = append(trees, td)
	}
	after := liveHeap()
	per := (after - before) / c17Trees
	st.Evaluations++
	if per > *maxPerTree {
		*maxPerTree = per
	}
	runtime.KeepAlive(trees)
	limit := int64(c17PerTree)
	if u.Kind == "collation" {
		limit = c17PerTreeCo
	}
	if per > limit {
		return viol(fmt.Sprintf("heap retained per tree after reaching content %s, churning and deleting every key (%d trees held alive)", ref, c17Trees),
			fmt.Sprintf("<= %d bytes (a small constant)", limit), fmt.Sprintf("%d bytes per tree", per))
	}
	return nil
}

// ReplayHeap re-measures one state (replay primitive).
func ReplayHeap(u *Universe, path []Op, tier string) *Violation {
	debug.SetGCPercent(100)
	runtime.GOMAXPROCS(1)
	return heapCheckState(u, path, pumpFor(tier), &Stats{}, new(int64), new(int64))
}

// pumpFor: repetitions per cycle; the thorough tier pumps five times longer against the same threshold
// (a leak of a third of a byte per repetition crosses it).
func pumpFor(tier string) int {
	if tier == "thorough" {
		return 5 * c17Pump
	}
	return c17Pump
}
