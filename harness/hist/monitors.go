package hist

import (
	"bytes"
	"fmt"
	"math"
)

func viol(what, exp, obs string) *Violation {
	return &Violation{What: what, Expected: exp, Observed: obs}
}

// collectSafe drives a sequence query to completion under recover.
func collectSafe(d Driver, q Query) (out []Pair, pan string) {
	pan = safely(func() { out = Collect(d.Seq(q)) })
	return
}

func optPair(u *Universe, p Pair, ok bool) string {
	if !ok {
		return "none"
	}
	return PairsString(u, []Pair{p})
}

// ---------------------------------------------------------------- C01

type MonC01 struct{}

func (MonC01) ID() string { return "C01" }

func (MonC01) Transition(x *Exec) *Violation {
	u := x.U
	if x.Panic != "" {
		return viol(u.OpString(x.Op), "returns normally", "panic: "+x.Panic)
	}
	if x.Op.Kind == OpDelete {
		_, was := x.Pre.Get(x.Op.K)
		if was != x.DelResult {
			return viol(u.OpString(x.Op)+" with content "+x.Pre.String(), fmt.Sprint(was), fmt.Sprint(x.DelResult))
		}
	}
	// the key just operated on, on every transition (the successor may be a state seen before, e.g. when an
	// overwrite is silently dropped, and then gets no state check of its own)
	var v int
	var ok bool
	if p := safely(func() { v, ok = x.D.Search(x.Op.K) }); p != "" {
		return viol("Search("+u.KeyStr[x.Op.K]+") right after "+u.OpString(x.Op)+" with content "+x.Pre.String(), "returns normally", "panic: "+p)
	}
	x.Stats.Evaluations++
	if x.Op.Kind == OpInsert && (!ok || v != x.Op.V) {
		return viol("Search("+u.KeyStr[x.Op.K]+") right after "+u.OpString(x.Op)+" with content "+x.Pre.String(), fmt.Sprintf("(%d,true)", x.Op.V), fmt.Sprintf("(%d,%v)", v, ok))
	}
	if x.Op.Kind == OpDelete && ok {
		return viol("Search("+u.KeyStr[x.Op.K]+") right after "+u.OpString(x.Op)+" with content "+x.Pre.String(), "(0,false)", fmt.Sprintf("(%d,true)", v))
	}
	return nil
}

func (MonC01) State(x *Exec) *Violation {
	u := x.U
	for _, q := range u.Probes {
		var v int
		var ok bool
		pan := safely(func() { v, ok = x.D.Search(q) })
		x.Stats.Evaluations++
		ev, eok := x.Ref.Get(q)
		if eok {
			x.Stats.Nontrivial++
		}
		what := fmt.Sprintf("Search(%s) with content %s", u.KeyStr[q], x.Ref)
		if pan != "" {
			return viol(what, fmt.Sprintf("(%d,%v)", ev, eok), "panic: "+pan)
		}
		if ok != eok || (ok && v != ev) {
			return viol(what, fmt.Sprintf("(%d,%v)", ev, eok), fmt.Sprintf("(%d,%v)", v, ok))
		}
	}
	return nil
}

// ---------------------------------------------------------------- C02

type MonC02 struct{}

func (MonC02) ID() string                    { return "C02" }
func (MonC02) Transition(x *Exec) *Violation { return nil }
func (MonC02) State(x *Exec) *Violation {
	u := x.U
	exp := x.Ref.Sorted()
	for _, q := range []Query{{Kind: SeqAll}, {Kind: SeqBackward}} {
		got, pan := collectSafe(x.D, q)
		x.Stats.Evaluations++
		e := exp
		if q.Kind == SeqBackward {
			e = Reverse(exp)
		}
		if len(e) > 1 {
			x.Stats.Nontrivial++
		}
		what := fmt.Sprintf("%s with content %s", q, x.Ref)
		if pan != "" {
			return viol(what, PairsString(u, e), "panic: "+pan)
		}
		if !PairsEqual(got, e) {
			return viol(what, PairsString(u, e), PairsString(u, got))
		}
	}
	return nil
}

// ---------------------------------------------------------------- C03

type MonC03 struct{}

func (MonC03) ID() string                    { return "C03" }
func (MonC03) Transition(x *Exec) *Violation { return nil }

// RangeExpected computes the property's answer for Range(a,b); skip is true for carved-out pairs.
func RangeExpected(u *Universe, ref *Ref, a, b int) (exp []Pair, skip bool) {
	if u.RangeSkip != nil && u.RangeSkip(a, b) {
		return nil, true
	}
	sorted := ref.Sorted()
	lo, hi := u.Rank[a], u.Rank[b]
	if u.EmptyEndMax && len(u.OrigBytes[b]) == 0 {
		if len(sorted) == 0 {
			return nil, false
		}
		hi = u.Rank[sorted[len(sorted)-1].K]
		if lo > hi {
			return nil, true // start above the maximum with an empty end: carved out
		}
	}
	if lo > hi {
		lo, hi = hi, lo
	}
	for _, p := range sorted {
		if r := u.Rank[p.K]; r >= lo && r <= hi {
			exp = append(exp, p)
		}
	}
	return exp, false
}

func (MonC03) State(x *Exec) *Violation {
	u := x.U
	if !u.HasRange {
		return nil
	}
	for _, a := range u.Bounds {
		for _, b := range u.Bounds {
			exp, skip := RangeExpected(u, x.Ref, a, b)
			if skip {
				continue
			}
			q := Query{Kind: SeqRange, A: a, B: b}
			var seq func(func(Pair) bool)
			var got []Pair
			pan := safely(func() { seq = x.D.Seq(q); got = Collect(seq) })
			x.Stats.Evaluations++
			if len(exp) > 0 {
				x.Stats.Nontrivial++
			}
			what := fmt.Sprintf("%s with content %s", u.QueryString(q), x.Ref)
			if pan != "" {
				return viol(what, PairsString(u, exp), "panic: "+pan)
			}
			if !PairsEqual(got, exp) {
				return viol(what, PairsString(u, exp), PairsString(u, got))
			}
			if len(exp) >= 2 {
				// the same sequence value again, after a pass abandoned at its first element
				var again []Pair
				pan := safely(func() {
					seq(func(Pair) bool { return false })
					again = Collect(seq)
				})
				x.Stats.Evaluations++
				if pan != "" {
					return viol(what+" (second pass after an abandoned one)", PairsString(u, exp), "panic: "+pan)
				}
				if !PairsEqual(again, exp) {
					return viol(what+" (second pass after an abandoned one)", PairsString(u, exp), PairsString(u, again))
				}
			}
		}
	}
	return nil
}

// ---------------------------------------------------------------- C04

type MonC04 struct{}

func (MonC04) ID() string                    { return "C04" }
func (MonC04) Transition(x *Exec) *Violation { return nil }

func PrefixExpected(u *Universe, ref *Ref, p int) []Pair {
	var exp []Pair
	for _, e := range ref.Sorted() {
		if bytes.HasPrefix(u.OrigBytes[e.K], u.OrigBytes[p]) {
			exp = append(exp, e)
		}
	}
	return exp
}

func (MonC04) State(x *Exec) *Violation {
	u := x.U
	if !u.HasPrefix {
		return nil
	}
	for _, p := range u.Prefixes {
		exp := PrefixExpected(u, x.Ref, p)
		q := Query{Kind: SeqPrefix, A: p}
		var seq func(func(Pair) bool)
		var got []Pair
		pan := safely(func() { seq = x.D.Seq(q); got = Collect(seq) })
		x.Stats.Evaluations++
		if len(exp) > 0 {
			x.Stats.Nontrivial++
		}
		what := fmt.Sprintf("%s with content %s", u.QueryString(q), x.Ref)
		if pan != "" {
			return viol(what, PairsString(u, exp), "panic: "+pan)
		}
		if !PairsEqual(got, exp) {
			return viol(what, PairsString(u, exp), PairsString(u, got))
		}
		if len(exp) >= 2 {
			// the same sequence value again, after a pass abandoned at its first element
			var again []Pair
			pan := safely(func() {
				seq(func(Pair) bool { return false })
				again = Collect(seq)
			})
			x.Stats.Evaluations++
			if pan != "" {
				return viol(what+" (second pass after an abandoned one)", PairsString(u, exp), "panic: "+pan)
			}
			if !PairsEqual(again, exp) {
				return viol(what+" (second pass after an abandoned one)", PairsString(u, exp), PairsString(u, again))
			}
		}
	}
	return nil
}

// ---------------------------------------------------------------- C05

type MonC05 struct{}

func (MonC05) ID() string                    { return "C05" }
func (MonC05) Transition(x *Exec) *Violation { return nil }
func (MonC05) State(x *Exec) *Violation {
	u := x.U
	sorted := x.Ref.Sorted()
	rev := Reverse(sorted)
	for _, isMax := range []bool{false, true} {
		var p Pair
		var ok bool
		name := "Minimum()"
		f := x.D.Min
		if isMax {
			name = "Maximum()"
			f = x.D.Max
		}
		pan := safely(func() { p, ok = f() })
		x.Stats.Evaluations++
		what := fmt.Sprintf("%s with content %s", name, x.Ref)
		var ep Pair
		eok := len(sorted) > 0
		if eok {
			x.Stats.Nontrivial++
			ep = sorted[0]
			if isMax {
				ep = rev[0]
			}
		}
		if pan != "" {
			return viol(what, optPair(u, ep, eok), "panic: "+pan)
		}
		if ok != eok || (ok && (p.K != ep.K || p.V != ep.V)) {
			return viol(what, optPair(u, ep, eok), optPair(u, p, ok))
		}
	}
	ns := []uint{}
	for n := 0; n <= len(sorted)+2; n++ {
		ns = append(ns, uint(n))
	}
	ns = append(ns, math.MaxUint)
	for _, n := range ns {
		for _, kind := range []SeqKind{SeqBottomK, SeqTopK} {
			src := sorted
			if kind == SeqTopK {
				src = rev
			}
			exp := src
			if uint(len(src)) > n {
				exp = src[:n]
			}
			q := Query{Kind: kind, N: n}
			got, pan := collectSafe(x.D, q)
			x.Stats.Evaluations++
			if len(exp) > 0 {
				x.Stats.Nontrivial++
			}
			what := fmt.Sprintf("%s with content %s", q, x.Ref)
			if pan != "" {
				return viol(what, PairsString(u, exp), "panic: "+pan)
			}
			if !PairsEqual(got, exp) {
				return viol(what, PairsString(u, exp), PairsString(u, got))
			}
		}
	}
	return nil
}

// ---------------------------------------------------------------- C06

type MonC06 struct{}

func (MonC06) ID() string { return "C06" }
func (MonC06) Transition(x *Exec) *Violation {
	if x.Panic != "" {
		return nil
	}
	x.Stats.Evaluations++
	got := x.D.Size()
	if got != x.Ref.Len() {
		return viol(fmt.Sprintf("Size() after %s on content %s (Size before: %d)", x.U.OpString(x.Op), x.Pre, x.SizeBefore), fmt.Sprint(x.Ref.Len()), fmt.Sprint(got))
	}
	if got != x.SizeBefore {
		x.Stats.Nontrivial++
	}
	return nil
}
func (MonC06) State(x *Exec) *Violation {
	u := x.U
	if got := x.D.Size(); got != x.Ref.Len() {
		return viol(fmt.Sprintf("Size() with content %s", x.Ref), fmt.Sprint(x.Ref.Len()), fmt.Sprint(got))
	}
	all, pan := collectSafe(x.D, Query{Kind: SeqAll})
	x.Stats.Evaluations++
	if pan == "" && len(all) != x.D.Size() {
		return viol(fmt.Sprintf("Size() vs number of pairs All() yields, content %s", x.Ref), fmt.Sprint(len(all)), fmt.Sprint(x.D.Size()))
	}
	// queries leave Size unchanged
	for _, q := range u.Probes {
		safely(func() { x.D.Search(q) })
	}
	safely(func() { x.D.Min(); x.D.Max() })
	collectSafe(x.D, Query{Kind: SeqBackward})
	collectSafe(x.D, Query{Kind: SeqTopK, N: 2})
	x.Stats.Evaluations++
	if got := x.D.Size(); got != x.Ref.Len() {
		return viol(fmt.Sprintf("Size() after read-only queries, content %s", x.Ref), fmt.Sprint(x.Ref.Len()), fmt.Sprint(got))
	}
	return nil
}

// ---------------------------------------------------------------- warmed variants

func (m MonC01) Light(x *Exec, clean *Exec) *Violation { return m.State(x) }
func (m MonC02) Light(x *Exec, clean *Exec) *Violation { return m.State(x) }
func (m MonC04) Light(x *Exec, clean *Exec) *Violation { return m.State(x) }

func (MonC03) Light(x *Exec, clean *Exec) *Violation {
	u := x.U
	if !u.HasRange {
		return nil
	}
	n := min(len(u.Bounds), 4)
	sub := *u
	sub.Bounds = u.Bounds[:n]
	y := *x
	y.U = &sub
	return MonC03{}.State(&y)
}

func (MonC05) Light(x *Exec, clean *Exec) *Violation {
	u := x.U
	sorted := x.Ref.Sorted()
	for _, isMax := range []bool{false, true} {
		var p Pair
		var ok bool
		f, name := x.D.Min, "Minimum()"
		if isMax {
			f, name = x.D.Max, "Maximum()"
		}
		pan := safely(func() { p, ok = f() })
		x.Stats.Evaluations++
		eok := len(sorted) > 0
		var ep Pair
		if eok {
			ep = sorted[0]
			if isMax {
				ep = sorted[len(sorted)-1]
			}
		}
		what := fmt.Sprintf("%s with content %s", name, x.Ref)
		if pan != "" {
			return viol(what, optPair(u, ep, eok), "panic: "+pan)
		}
		if ok != eok || (ok && (p.K != ep.K || p.V != ep.V)) {
			return viol(what, optPair(u, ep, eok), optPair(u, p, ok))
		}
	}
	for _, q := range []Query{{Kind: SeqTopK, N: 1}, {Kind: SeqBottomK, N: 1}, {Kind: SeqTopK, N: math.MaxUint}} {
		src := sorted
		if q.Kind == SeqTopK {
			src = Reverse(sorted)
		}
		exp := src
		if uint(len(src)) > q.N {
			exp = src[:q.N]
		}
		got, pan := collectSafe(x.D, q)
		x.Stats.Evaluations++
		what := fmt.Sprintf("%s with content %s", q, x.Ref)
		if pan != "" {
			return viol(what, PairsString(u, exp), "panic: "+pan)
		}
		if !PairsEqual(got, exp) && !(len(got) == 0 && len(exp) == 0) {
			return viol(what, PairsString(u, exp), PairsString(u, got))
		}
	}
	return nil
}

func (MonC06) Light(x *Exec, clean *Exec) *Violation {
	x.Stats.Evaluations++
	if got := x.D.Size(); got != x.Ref.Len() {
		return viol(fmt.Sprintf("Size() with content %s", x.Ref), fmt.Sprint(x.Ref.Len()), fmt.Sprint(got))
	}
	return nil
}
