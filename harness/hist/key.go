package hist

import (
	"crypto/sha256"
	"encoding/binary"
	"fmt"

	art "github.com/Clement-Jean/go-art"
)

type Hash [16]byte

// KeyMode selects what goes into a serialisation of the structural dump.
type KeyMode int

const (
	// KeyRaw: everything the walker sees (stale lanes, all ten inline bytes,
	// node48 slot numbers, stale child slots).
	KeyRaw KeyMode = iota
	// KeyDedup erases what correct code never interprets: inline bytes beyond
	// min(limit,len), node16 lanes >= fan-out, node48 slot numbers.
	KeyDedup
	// KeyErased additionally erases node4 free lanes, size classes and values stay.
	KeyErased
	// KeyShape erases size classes, lanes and values: the shape that must
	// depend on the key set only (C11 history independence).
	KeyShape
)

func valueInt(v any) int {
	switch x := v.(type) {
	case int:
		return x
	case nil:
		return 0
	}
	return -1
}

// Serialize appends a canonical serialisation of the dump.
func Serialize(dst []byte, n *art.VerifNode, mode KeyMode, valOf func(any) int) []byte {
	if n == nil {
		return append(dst, 'N')
	}
	if valOf == nil {
		valOf = valueInt
	}
	if n.Kind == 4 {
		dst = append(dst, 'L')
		dst = binary.AppendUvarint(dst, uint64(len(n.Key)))
		dst = append(dst, n.Key...)
		dst = binary.AppendUvarint(dst, uint64(len(n.TransformKey)))
		dst = append(dst, n.TransformKey...)
		if mode != KeyShape {
			dst = binary.AppendVarint(dst, int64(valOf(n.Value)))
		}
		return dst
	}
	dst = append(dst, 'I')
	if mode != KeyShape {
		dst = append(dst, byte(n.Kind))
	}
	dst = binary.AppendUvarint(dst, uint64(n.ChildrenLen))
	dst = binary.AppendUvarint(dst, uint64(n.PrefixLen))
	live := n.PrefixLen
	if live > len(n.Prefix) {
		live = len(n.Prefix)
	}
	if mode == KeyRaw {
		dst = append(dst, n.Prefix[:]...)
	} else {
		dst = append(dst, n.Prefix[:live]...)
	}
	switch n.Kind {
	case 0:
		switch mode {
		case KeyRaw, KeyDedup:
			dst = append(dst, n.RawKeys...)
		}
	case 1:
		if mode == KeyRaw {
			dst = append(dst, n.RawKeys...)
		}
	case 2:
		if mode == KeyRaw {
			dst = append(dst, n.RawKeys...)
		}
	}
	if mode == KeyRaw {
		dst = binary.AppendUvarint(dst, uint64(n.StaleSlots))
	}
	dst = binary.AppendUvarint(dst, uint64(len(n.Edges)))
	for _, e := range n.Edges {
		dst = append(dst, e.Byte)
		if mode == KeyRaw {
			dst = binary.AppendUvarint(dst, uint64(e.Slot))
		}
		dst = Serialize(dst, e.Child, mode, valOf)
	}
	return dst
}

func HashOf(b []byte) Hash {
	s := sha256.Sum256(b)
	var h Hash
	copy(h[:], s[:16])
	return h
}

// StateKeys returns the dedup and raw hashes for a tree state.
func StateKeys(d Driver, scratch *[]byte) (dedup, raw Hash) {
	dump := d.Dump()
	size := d.Size()
	b := (*scratch)[:0]
	b = binary.AppendVarint(b, int64(size))
	b = Serialize(b, dump, KeyDedup, nil)
	dedup = HashOf(b)
	b = b[:0]
	b = binary.AppendVarint(b, int64(size))
	b = Serialize(b, dump, KeyRaw, nil)
	raw = HashOf(b)
	*scratch = b
	return
}

// DumpString renders a dump for humans (replay files, diagnostics).
func DumpString(n *art.VerifNode) string {
	if n == nil {
		return "nil"
	}
	if n.Kind == 4 {
		if n.Key == nil && n.TransformKey == nil {
			return fmt.Sprintf("leaf#%v", n.Value)
		}
		if len(n.TransformKey) > 160 {
			return fmt.Sprintf("leaf(%q…%q (%d bytes)->%v)", n.TransformKey[:24], n.TransformKey[len(n.TransformKey)-8:], len(n.TransformKey), n.Value)
		}
		return fmt.Sprintf("leaf(%q->%v)", n.TransformKey, n.Value)
	}
	s := fmt.Sprintf("n%d{len=%d plen=%d p=%x keys=%x stale=%d:", []int{4, 16, 48, 256}[n.Kind], n.ChildrenLen, n.PrefixLen, n.Prefix, n.RawKeys, n.StaleSlots)
	if n.Kind == 2 {
		s = fmt.Sprintf("n48{len=%d plen=%d p=%x stale=%d:", n.ChildrenLen, n.PrefixLen, n.Prefix, n.StaleSlots)
	}
	for _, e := range n.Edges {
		s += fmt.Sprintf(" %02x@%d:%s", e.Byte, e.Slot, DumpString(e.Child))
	}
	return s + "}"
}
