package hist

import (
	"fmt"
	"runtime"
	"runtime/debug"
	"strconv"
	"strings"
	"time"
)

// Violation is one counterexample, replayable without the explorer.
type Violation struct {
	Property string   `json:"property"`
	Universe string   `json:"universe"`
	Tier     string   `json:"tier"`
	Path     []Op     `json:"path"`           // operations after the universe's setup
	PathStr  string   `json:"path_str"`       // the same, printable
	SetupStr string   `json:"setup_str"`      // the setup history, printable
	Fill     string   `json:"fill,omitempty"` // poison filling of the pre-state ("" none)
	What     string   `json:"what"`           // which call / check failed
	Expected string   `json:"expected"`
	Observed string   `json:"observed"`
	Product  []POp    `json:"product_path,omitempty"` // C12: operations of the product system
	Known    string   `json:"known,omitempty"`        // id of a listed known finding
	Tags     []string `json:"tags,omitempty"`
}

func (v *Violation) String() string {
	return fmt.Sprintf("[%s] %s after {%s}: %s: expected %s, observed %s", v.Property, v.Universe, v.PathStr, v.What, v.Expected, v.Observed)
}

// Stats are the measured coverage counters of one job.
type Stats struct {
	States        int                `json:"states"`
	Variants      int                `json:"raw_variants_expanded"`
	Unexpanded    int                `json:"raw_variants_seen_not_expanded"`
	Transitions   int                `json:"transitions"`
	PoisonRuns    int                `json:"poison_runs"`
	WarmRuns      int                `json:"warm_runs"`
	DrainSteps    int                `json:"drain_steps"`
	ChurnCycles   int                `json:"churn_cycles,omitempty"`
	Evaluations   int                `json:"evaluations"`
	Nontrivial    int                `json:"distinct_nontrivial"`
	FaultySkipped int                `json:"faulty_transitions_skipped"`
	TaintedSkip   int                `json:"known_finding_transitions_not_expanded"`
	MaxDepth      int                `json:"max_depth"`
	Levels        int                `json:"bfs_levels_completed"`
	Exhaustive    bool               `json:"exhaustive"`
	CapHit        string             `json:"cap_hit,omitempty"`
	Outcomes      map[string]int     `json:"outcomes,omitempty"` // distinct observed outcome classes
	Samples       []string           `json:"samples"`
	WallS         float64            `json:"wall_s"`
	Extra         map[string]float64 `json:"extra,omitempty"` // engine-specific counters, summed on merge
}

func (s *Stats) Outcome(class string) {
	if s.Outcomes == nil {
		s.Outcomes = map[string]int{}
	}
	s.Outcomes[class]++
}

// Exec is what a monitor sees.
type Exec struct {
	U     *Universe
	D     Driver
	Ref   *Ref // reference after the operation (State) / after (Transition)
	Pre   *Ref // reference before the operation (Transition only)
	Op    Op
	Stats *Stats
	// results of the transition
	Panic      string
	DelResult  bool
	SizeBefore int
	// Poisoned is set when the pre-state had its dead bytes overwritten.
	Poisoned bool
	// Path is the history after the setup that led here (including Op), when known.
	Path []Op
}

// Monitor checks one property.
type Monitor interface {
	ID() string
	// Transition is called after every executed transition.
	Transition(x *Exec) *Violation
	// State is called on the live tree of every new state.
	State(x *Exec) *Violation
}

type Config struct {
	Tier        string
	RawVariants int // raw variants expanded per dedup state
	Poison      bool
	Warm        bool // run every transition also on a history with read-only queries interleaved after every operation
	MaxStates   int
	Deadline    time.Duration
	GCEvery     int
	MaxSamples  int
	OnState     func(path []Op) // called for every new state (after the monitor)
	GC          bool            // C18: a forced collection after every operation of every replay and before every check
	Churn       int             // from every new state: this many Delete(k);Insert(k) cycles on its first and last stored free key, then a monitored step
	Drain       bool            // from every new state: delete every stored key, one by one (two orders), monitored step by step
}

// Warmer is implemented by monitors that check a cheap subset of their suite on the
// "warmed" variant of every transition: the same history with a bundle of read-only
// queries executed after every operation (catches state kept outside the index
// structure, e.g. caches filled by queries). clean is the unwarmed execution of the same transition.
type Warmer interface {
	Light(x *Exec, clean *Exec) *Violation
}

// WarmQueries runs the read-only bundle; results and panics are ignored here (the
// monitors own them), only its side effects, if any, matter.
func WarmQueries(u *Universe, d Driver) {
	safely(func() { d.Min() })
	safely(func() { d.Max() })
	safely(func() { d.Size() })
	for _, q := range u.Probes {
		safely(func() { d.Search(q) })
	}
	WarmSequences(u, d)
}

// WarmSequences: the first elements of one sequence of every kind, each abandoned early.
func WarmSequences(u *Universe, d Driver) {
	first := func(q Query, n int) {
		safely(func() {
			c := 0
			d.Seq(q)(func(Pair) bool { c++; return c < n })
		})
	}
	first(Query{Kind: SeqAll}, 2)
	first(Query{Kind: SeqBackward}, 2)
	first(Query{Kind: SeqTopK, N: 1}, 2)
	first(Query{Kind: SeqBottomK, N: 2}, 3)
	if u.HasPrefix && len(u.Prefixes) > 1 {
		first(Query{Kind: SeqPrefix, A: u.Prefixes[1]}, 2)
	}
	if u.HasRange && len(u.Bounds) > 1 {
		first(Query{Kind: SeqRange, A: u.Bounds[0], B: u.Bounds[len(u.Bounds)-1]}, 2)
	}
}

// rebuildWarm replays setup+path with the query bundle after every path operation (and once after the setup).
func rebuildWarm(u *Universe, path []Op) (Driver, *Ref, error) {
	d := u.New()
	ref := NewRef(u)
	for i, op := range u.Setup {
		if _, p := apply(d, op); p != "" {
			return nil, nil, fmt.Errorf("panic replaying setup op %d %s: %s", i, u.OpString(op), p)
		}
		ref.Apply(op)
	}
	WarmQueries(u, d)
	for i, op := range path {
		if _, p := apply(d, op); p != "" {
			return nil, nil, fmt.Errorf("panic replaying path op %d %s: %s", i, u.OpString(op), p)
		}
		ref.Apply(op)
		WarmQueries(u, d)
	}
	return d, ref, nil
}

// freeAllOrNone: every free key is stored, or none is (the fullest and the emptiest contents of a window).
func freeAllOrNone(u *Universe, ref *Ref) bool {
	n := 0
	for _, k := range u.Free {
		if _, ok := ref.Get(k); ok {
			n++
		}
	}
	return n == 0 || n == len(u.Free)
}

// DrainEval replays path and then deletes every stored key one by one (ascending or descending
// oracle order), applying the monitor's transition check and light check after every step: long
// monotone tails through every shrink threshold and merge, from every reachable state. It is
// deterministic in (path, order), so it doubles as the replay primitive of what it finds.
func DrainEval(u *Universe, m Monitor, path []Op, descending bool, st *Stats) *Violation {
	if st == nil {
		st = &Stats{}
	}
	d, ref, err := rebuild(u, path)
	if err != nil {
		return nil
	}
	keys := ref.Sorted()
	if descending {
		keys = Reverse(keys)
	}
	full := append([]Op(nil), path...)
	for _, p := range keys {
		op := Op{Kind: OpDelete, K: p.K}
		full = append(full, op)
		x := &Exec{U: u, D: d, Pre: ref.Clone(), Op: op, Stats: st, SizeBefore: d.Size(), Path: full}
		x.DelResult, x.Panic = apply(d, op)
		ref.Apply(op)
		x.Ref = ref
		st.DrainSteps++
		tail := fmt.Sprintf(" [%d deletions into the drain: %s]", len(full)-len(path), u.PathString(full[len(path):]))
		if v := m.Transition(x); v != nil {
			v.What += tail
			return v
		}
		if transitionFaulty(x) {
			return nil // owned by C01
		}
		if w, ok := m.(Warmer); ok {
			if v := w.Light(x, x); v != nil {
				v.What += tail
				return v
			}
		}
	}
	return nil
}

// ChurnEval replays path and then, for the first and the last stored free key, deletes and re-inserts that key
// `cycles` times (slot reuse inside a node that keeps its size class: more cycles than a node has slots), checking every
// result; the last re-insertion is a monitored transition, followed by the monitor's state check. Deterministic in
// (path, cycles): doubles as the replay primitive of what it finds.
func ChurnEval(u *Universe, m Monitor, path []Op, cycles int, st *Stats) *Violation {
	if st == nil {
		st = &Stats{}
	}
	d, ref, err := rebuild(u, path)
	if err != nil {
		return nil
	}
	var present []int
	for _, k := range u.Free {
		if _, ok := ref.Get(k); ok {
			present = append(present, k)
		}
	}
	if len(present) > 2 {
		present = []int{present[0], present[len(present)-1]}
	}
	for _, k := range present {
		val, _ := ref.Get(k)
		del, ins := Op{Kind: OpDelete, K: k}, Op{Kind: OpInsert, K: k, V: val}
		for c := 0; c < cycles; c++ {
			tail := fmt.Sprintf(" [cycle %d of %d of Delete;Insert of %s after the history]", c+1, cycles, u.KeyStr[k])
			st.ChurnCycles++
			got, pan := apply(d, del)
			if pan != "" {
				return viol("Delete("+u.KeyStr[k]+") with content "+ref.String()+tail, "returns true", "panic: "+pan)
			}
			if !got {
				return viol("Delete("+u.KeyStr[k]+") with content "+ref.String()+tail, "true", "false")
			}
			if c < cycles-1 {
				if _, pan := apply(d, ins); pan != "" {
					return viol("Insert("+u.KeyStr[k]+") into the content without it"+tail, "returns normally", "panic: "+pan)
				}
				continue
			}
			// last cycle: the re-insertion is a monitored transition
			pre := ref.Clone()
			pre.Apply(del)
			full := append(append([]Op(nil), path...), del, ins)
			x := &Exec{U: u, D: d, Pre: pre, Op: ins, Stats: st, SizeBefore: d.Size(), Path: full}
			x.DelResult, x.Panic = apply(d, ins)
			x.Ref = ref
			if v := m.Transition(x); v != nil {
				v.What += tail
				return v
			}
			if transitionFaulty(x) {
				return nil
			}
			if v := m.State(x); v != nil {
				v.What += tail
				return v
			}
		}
	}
	return nil
}

type stateRec struct {
	parent int32
	op     Op
	depth  int32
}

type dedupEntry struct {
	raws []Hash
	more map[Hash]struct{}
}

// Result of one job.
type Result struct {
	Universe   string       `json:"universe"`
	Property   string       `json:"property"`
	Stats      Stats        `json:"stats"`
	Violations []*Violation `json:"violations,omitempty"`
	Known      []*Violation `json:"known,omitempty"`
	HarnessErr string       `json:"harness_error,omitempty"`
	// Unconfirmed: a violation that was observed but did not recur when its history was re-executed on
	// fresh trees in the same process. The runner re-runs the whole job in a fresh process: if the same
	// violation shows up at the same point again, it is deterministic at job level (the outcome depends
	// on what OTHER trees did earlier in the process: state shared between trees) and is reported.
	Unconfirmed *Violation `json:"unconfirmed,omitempty"`
}

// safely runs f, returning the panic text ("" if none).
func safely(f func()) (p string) {
	defer func() {
		if r := recover(); r != nil {
			p = fmt.Sprint(r)
			if p == "" {
				p = "panic"
			}
		}
	}()
	f()
	return ""
}

// apply executes op on the real tree under recover.
func apply(d Driver, op Op) (del bool, pan string) {
	pan = safely(func() {
		if op.Kind == OpInsert {
			d.Insert(op.K, op.V)
		} else {
			del = d.Delete(op.K)
		}
	})
	return
}

// transitionFaulty is the engine's own minimal notion of a broken transition
// (used by monitors other than C01 to skip states they cannot reason about).
func transitionFaulty(x *Exec) bool {
	if x.Panic != "" {
		return true
	}
	if x.Op.Kind == OpDelete {
		_, was := x.Pre.Get(x.Op.K)
		return was != x.DelResult
	}
	return false
}

type explorer struct {
	u   *Universe
	m   Monitor
	cfg Config
	res *Result
	rec []stateRec
}

func (e *explorer) pathOf(id int32) []Op {
	n := e.rec[id].depth
	p := make([]Op, n)
	for id > 0 {
		r := e.rec[id]
		p[r.depth-1] = r.op
		id = r.parent
	}
	return p
}

// gcAll makes rebuild force a collection after every operation (C18).
var gcAll bool

// SetGCAll switches the forced-collection regime on (replay of C18 counterexamples).
func SetGCAll(on bool) {
	gcAll = on
	if on {
		debug.SetGCPercent(1)
	}
}

// rebuild replays setup+path silently on a fresh tree.
func rebuild(u *Universe, path []Op) (Driver, *Ref, error) {
	if gcAll {
		return RebuildGC(u, path, ^uint64(0))
	}
	return RebuildGC(u, path, 0)
}

// RebuildGC replays setup+path with a forced collection after the setup and after
// every path operation whose bit is set in mask (bit i = after path[i]).
func RebuildGC(u *Universe, path []Op, mask uint64) (Driver, *Ref, error) {
	d := u.New()
	ref := NewRef(u)
	for i, op := range u.Setup {
		if _, p := apply(d, op); p != "" {
			return nil, nil, fmt.Errorf("panic replaying setup op %d %s: %s", i, u.OpString(op), p)
		}
		ref.Apply(op)
	}
	if mask != 0 {
		runtime.GC()
	}
	for i, op := range path {
		if _, p := apply(d, op); p != "" {
			return nil, nil, fmt.Errorf("panic replaying path op %d %s: %s", i, u.OpString(op), p)
		}
		ref.Apply(op)
		if i < 64 && mask&(1<<uint(i)) != 0 {
			runtime.GC()
		}
	}
	return d, ref, nil
}

// FillFor returns the poison filling named by fill for an operation on key k.
func FillFor(u *Universe, fill string, tkey []byte) func(int) byte {
	switch fill {
	case "00":
		return func(int) byte { return 0 }
	case "ff":
		return func(int) byte { return 0xFF }
	case "key":
		return func(p int) byte {
			if p < len(tkey) {
				return tkey[p]
			}
			return 0
		}
	}
	return nil
}

// EvalPath re-executes path on a fresh tree and applies the monitor to the
// last transition and the resulting state; it is the replay primitive, used
// for confirmation runs, for `check replay` and for the poison differential.
func EvalPath(u *Universe, m Monitor, path []Op, fill string, st *Stats) (*Violation, Driver, *Ref, error) {
	r, err := EvalPathX(u, m, path, fill, st)
	if err != nil {
		return nil, nil, nil, err
	}
	return r.V, r.D, r.Ref, nil
}

// EvalResult is the outcome of EvalPathX.
type EvalResult struct {
	V      *Violation
	D      Driver
	Ref    *Ref // reference after the last operation
	Pre    *Ref // reference before it (nil for the empty path)
	Faulty bool // the last transition is broken at engine level and the monitor does not own that
}

func EvalPathX(u *Universe, m Monitor, path []Op, fill string, st *Stats) (*EvalResult, error) {
	if st == nil {
		st = &Stats{}
	}
	if len(path) == 0 {
		d, ref, err := rebuild(u, nil)
		if err != nil {
			return nil, err
		}
		x := &Exec{U: u, D: d, Ref: ref, Stats: st}
		return &EvalResult{V: m.State(x), D: d, Ref: ref}, nil
	}
	if fill == "warm" {
		return evalWarm(u, m, path, st)
	}
	if fill == "drain-asc" || fill == "drain-desc" {
		return &EvalResult{V: DrainEval(u, m, path, fill == "drain-desc", st)}, nil
	}
	if strings.HasPrefix(fill, "churn-") {
		n, _ := strconv.Atoi(strings.TrimPrefix(fill, "churn-"))
		return &EvalResult{V: ChurnEval(u, m, path, n, st)}, nil
	}
	d, pre, err := rebuild(u, path[:len(path)-1])
	if err != nil {
		return nil, err
	}
	op := path[len(path)-1]
	x := &Exec{U: u, D: d, Pre: pre, Op: op, Stats: st, Poisoned: fill != ""}
	if fill != "" {
		var tk []byte
		if u.TKey != nil {
			tk = u.TKey(op.K)
		}
		d.Poison(FillFor(u, fill, tk))
	}
	x.SizeBefore = d.Size()
	x.Path = path
	x.DelResult, x.Panic = apply(d, op)
	if gcAll {
		runtime.GC()
	}
	x.Ref = pre.Clone()
	x.Ref.Apply(op)
	if v := m.Transition(x); v != nil {
		return &EvalResult{V: v, D: d, Ref: x.Ref, Pre: pre}, nil
	}
	if transitionFaulty(x) {
		return &EvalResult{D: d, Ref: x.Ref, Pre: pre, Faulty: true}, nil
	}
	return &EvalResult{V: m.State(x), D: d, Ref: x.Ref, Pre: pre}, nil
}

// evalWarm executes the last transition of path on the warmed history and on the clean one.
func evalWarm(u *Universe, m Monitor, path []Op, st *Stats) (*EvalResult, error) {
	w, ok := m.(Warmer)
	if !ok {
		return nil, fmt.Errorf("monitor %s has no warmed variant", m.ID())
	}
	op := path[len(path)-1]
	cd, cpre, err := rebuild(u, path[:len(path)-1])
	if err != nil {
		return nil, err
	}
	clean := &Exec{U: u, D: cd, Pre: cpre, Op: op, Stats: st, SizeBefore: cd.Size()}
	clean.DelResult, clean.Panic = apply(cd, op)
	clean.Ref = cpre.Clone()
	clean.Ref.Apply(op)
	wd, wpre, err := rebuildWarm(u, path[:len(path)-1])
	if err != nil {
		return nil, err
	}
	x := &Exec{U: u, D: wd, Pre: wpre, Op: op, Stats: st, SizeBefore: wd.Size()}
	x.DelResult, x.Panic = apply(wd, op)
	x.Ref = clean.Ref
	if v := m.Transition(x); v != nil {
		return &EvalResult{V: v, D: wd, Ref: x.Ref, Pre: wpre}, nil
	}
	if transitionFaulty(x) {
		if !transitionFaulty(clean) {
			return &EvalResult{V: viol("result of "+u.OpString(op)+" on a history with read-only queries interleaved", fmt.Sprintf("as without queries (delete result %v, no panic)", clean.DelResult), fmt.Sprintf("delete result %v, panic %q", x.DelResult, x.Panic)), D: wd, Ref: x.Ref, Pre: wpre}, nil
		}
		return &EvalResult{D: wd, Ref: x.Ref, Pre: wpre, Faulty: true}, nil
	}
	return &EvalResult{V: w.Light(x, clean), D: wd, Ref: x.Ref, Pre: wpre}, nil
}

func (e *explorer) finishViolation(v *Violation, path []Op, fill string) {
	v.Property = e.m.ID()
	v.Universe = e.u.Name
	v.Tier = e.cfg.Tier
	v.Path = path
	v.PathStr = e.u.PathString(path)
	v.SetupStr = e.u.PathString(e.u.Setup)
	v.Fill = fill
}

// confirm re-runs a violating path 5 times; all runs must violate the same way.
func (e *explorer) confirm(v *Violation, path []Op, fill string) bool {
	for i := 0; i < 5; i++ {
		v2, _, _, err := EvalPath(e.u, e.m, path, fill, nil)
		if err != nil || v2 == nil || v2.What != v.What || v2.Observed != v.Observed {
			e.res.HarnessErr = fmt.Sprintf("violation did not reproduce on re-run %d: %v (first: %s)", i, v2, v)
			e.res.Unconfirmed = v
			return false
		}
	}
	return true
}

// report files a violation; it returns true when exploration should stop.
func (e *explorer) report(v *Violation, path []Op, fill string) bool {
	e.finishViolation(v, path, fill)
	if !e.confirm(v, path, fill) {
		return true
	}
	if id := MatchKnown(e.u, v); id != "" {
		v.Known = id
		for _, k := range e.res.Known {
			if k.Known == id {
				return false
			}
		}
		e.res.Known = append(e.res.Known, v)
		return false
	}
	e.res.Violations = append(e.res.Violations, v)
	return true
}

// Explore runs the closure of u under monitor m.
func Explore(u *Universe, m Monitor, cfg Config) *Result {
	start := time.Now()
	if cfg.GCEvery == 0 {
		cfg.GCEvery = 2000
	}
	if cfg.MaxSamples == 0 {
		cfg.MaxSamples = 4
	}
	// deterministic memory management: the collector (and with it the
	// emptying of sync.Pool) only runs at fixed points of the search.
	debug.SetGCPercent(-1)
	debug.SetMemoryLimit(2 << 30) // safety net only: collections normally happen at fixed points of the search
	runtime.GOMAXPROCS(1)
	gcAll = cfg.GC
	if cfg.GC {
		debug.SetGCPercent(1)
	}

	e := &explorer{u: u, m: m, cfg: cfg, res: &Result{Universe: u.Name, Property: m.ID()}}
	st := &e.res.Stats
	st.Exhaustive = true
	defer func() { st.WallS = time.Since(start).Seconds() }()

	seen := map[Hash]*dedupEntry{}
	var scratch []byte

	// --- setup, monitored step by step ---
	{
		d := u.New()
		ref := NewRef(u)
		x := &Exec{U: u, D: d, Ref: ref, Stats: st}
		if v := m.State(x); v != nil {
			e.finishViolation(v, nil, "")
			v.Tags = append(v.Tags, "initial-empty-tree")
			v.SetupStr = ""
			e.res.Violations = append(e.res.Violations, v)
			return e.res
		}
		for i, op := range u.Setup {
			x := &Exec{U: u, D: d, Pre: ref.Clone(), Op: op, Stats: st, SizeBefore: d.Size()}
			x.DelResult, x.Panic = apply(d, op)
			ref.Apply(op)
			x.Ref = ref
			st.Transitions++
			v := m.Transition(x)
			if v == nil && !transitionFaulty(x) {
				v = m.State(x)
			}
			if v == nil && transitionFaulty(x) {
				// the history that builds this universe does not complete: whatever the property says about the states behind it
				// cannot hold (faults inside the closure are left to C01, which owns them; a universe that cannot even be set up
				// would otherwise end without a verdict)
				what := u.OpString(op) + " while building the universe, content before it " + x.Pre.String()
				obs := "panic: " + x.Panic
				if x.Panic == "" {
					obs = fmt.Sprintf("Delete returned %v", x.DelResult)
				}
				v = viol(what, "returns normally with the ideal map's result (the property quantifies over this history too)", obs)
				v.Tags = append(v.Tags, "fault-in-setup")
			}
			if v != nil {
				e.finishViolation(v, nil, "")
				v.SetupStr = u.PathString(u.Setup[:i+1])
				v.Tags = append(v.Tags, fmt.Sprintf("in-setup:%d", i+1))
				e.res.Violations = append(e.res.Violations, v)
				return e.res
			}
		}
		kd, kr := StateKeys(d, &scratch)
		seen[kd] = &dedupEntry{raws: []Hash{kr}}
		e.rec = append(e.rec, stateRec{parent: -1})
		st.States = 1
	}

	var ops []Op
	for _, k := range u.Free {
		for v := 1; v <= u.NVals; v++ {
			ops = append(ops, Op{Kind: OpInsert, K: k, V: v})
		}
	}
	for _, k := range u.Free {
		ops = append(ops, Op{Kind: OpDelete, K: k})
	}
	for _, k := range u.DelExtra {
		ops = append(ops, Op{Kind: OpDelete, K: k})
	}

	fills := []string{"00", "ff", "key"}
	deadline := time.Time{}
	if cfg.Deadline > 0 {
		deadline = start.Add(cfg.Deadline)
	}

	frontier := []int32{0}
	sinceGC := 0
	for len(frontier) > 0 {
		var next []int32
		for _, sid := range frontier {
			path := e.pathOf(sid)
			if len(st.Samples) < cfg.MaxSamples && len(path) > 0 && (len(path) == 1 || len(path)%3 == 0) {
				st.Samples = append(st.Samples, u.PathString(u.Setup)+" || "+u.PathString(path))
			}
			for _, op := range ops {
				if !deadline.IsZero() && time.Now().After(deadline) {
					st.Exhaustive = false
					st.CapHit = fmt.Sprintf("deadline %s", cfg.Deadline)
					return e.res
				}
				sinceGC++
				if sinceGC >= cfg.GCEvery {
					runtime.GC()
					runtime.GC()
					sinceGC = 0
				}
				full := append(path[:len(path):len(path)], op)
				d, pre, err := rebuild(u, path)
				if err != nil {
					e.res.HarnessErr = err.Error()
					return e.res
				}
				x := &Exec{U: u, D: d, Pre: pre, Op: op, Stats: st, SizeBefore: d.Size(), Path: full}
				x.DelResult, x.Panic = apply(d, op)
				if cfg.GC {
					runtime.GC()
				}
				x.Ref = pre.Clone()
				x.Ref.Apply(op)
				st.Transitions++
				if v := m.Transition(x); v != nil {
					if e.report(v, full, "") {
						return e.res
					}
					continue // known finding: do not expand
				}
				// engine-level fault not owned by this monitor: skip the state
				if transitionFaulty(x) {
					st.FaultySkipped++
					continue
				}
				if IsTaintedInsert(u, pre, op) {
					// known finding D9: checked (the monitor sees the state once), never expanded
					st.TaintedSkip++
					if v := m.State(x); v != nil {
						if e.report(v, full, "") {
							return e.res
						}
					}
					continue
				}
				kd, kr := StateKeys(d, &scratch)
				// taken before any query runs on the successor, like the poisoned successors it is compared with
				var erased Hash
				if cfg.Poison {
					erased = erasedKey(d, &scratch)
				}
				ent, ok := seen[kd]
				isNew := false
				if !ok {
					seen[kd] = &dedupEntry{raws: []Hash{kr}}
					isNew = true
					st.States++
				} else {
					found := false
					for _, h := range ent.raws {
						if h == kr {
							found = true
							break
						}
					}
					if !found {
						if len(ent.raws) < cfg.RawVariants {
							ent.raws = append(ent.raws, kr)
							isNew = true
							st.Variants++
						} else {
							if ent.more == nil {
								ent.more = map[Hash]struct{}{}
							}
							if _, dup := ent.more[kr]; !dup {
								ent.more[kr] = struct{}{}
								st.Unexpanded++
							}
						}
					}
				}
				if isNew {
					if v := m.State(x); v != nil {
						if e.report(v, full, "") {
							return e.res
						}
						continue
					}
				}
				if cfg.Poison {
					for _, f := range fills {
						pd, ppre, err := rebuild(u, path)
						if err != nil {
							e.res.HarnessErr = err.Error()
							return e.res
						}
						var tk []byte
						if u.TKey != nil {
							tk = u.TKey(op.K)
						}
						pd.Poison(FillFor(u, f, tk))
						px := &Exec{U: u, D: pd, Pre: ppre, Op: op, Stats: st, SizeBefore: pd.Size(), Poisoned: true}
						px.DelResult, px.Panic = apply(pd, op)
						px.Ref = x.Ref
						st.PoisonRuns++
						pv := m.Transition(px)
						if pv == nil && transitionFaulty(px) {
							pv = viol("result of "+u.OpString(op)+" with dead bytes of the pre-state overwritten ("+f+")",
								fmt.Sprintf("as without overwriting (delete result %v, no panic)", x.DelResult),
								fmt.Sprintf("delete result %v, panic %q", px.DelResult, px.Panic))
						}
						if pv == nil {
							if pe := erasedKey(pd, &scratch); pe != erased {
								pv = viol("successor of "+u.OpString(op)+" with dead bytes of the pre-state overwritten ("+f+")",
									"same tree as without overwriting (dead inline path bytes / free node16 lanes are never interpreted)",
									DumpString(pd.Dump())+" instead of "+DumpString(d.Dump()))
							}
						}
						if pv == nil && isNew {
							pv = m.State(px)
						}
						if pv != nil {
							if e.report(pv, full, f) {
								return e.res
							}
							break
						}
					}
				}
				if w, ok := m.(Warmer); ok && cfg.Warm {
					wd, wpre, err := rebuildWarm(u, path)
					if err != nil {
						e.res.HarnessErr = err.Error()
						return e.res
					}
					wx := &Exec{U: u, D: wd, Pre: wpre, Op: op, Stats: st, SizeBefore: wd.Size()}
					wx.DelResult, wx.Panic = apply(wd, op)
					wx.Ref = x.Ref
					st.WarmRuns++
					wv := m.Transition(wx)
					if wv == nil && transitionFaulty(wx) {
						wv = viol("result of "+u.OpString(op)+" on a history with read-only queries interleaved", fmt.Sprintf("as without queries (delete result %v, no panic)", x.DelResult), fmt.Sprintf("delete result %v, panic %q", wx.DelResult, wx.Panic))
					}
					if wv == nil {
						wv = w.Light(wx, x)
					}
					if wv != nil {
						if e.report(wv, full, "warm") {
							return e.res
						}
					}
				}
				if isNew && cfg.OnState != nil {
					cfg.OnState(full)
				}
				// universes with a long setup (big fan-out windows): the tail below the free keys is the same
				// from every state, so only the first states get the (long) drain
				if isNew && cfg.Drain && (len(u.Setup) <= 24 || st.States+st.Variants <= 12 || freeAllOrNone(u, x.Ref)) {
					for _, desc := range []bool{false, true} {
						if dv := DrainEval(u, m, full, desc, st); dv != nil {
							fill := "drain-asc"
							if desc {
								fill = "drain-desc"
							}
							if e.report(dv, full, fill) {
								return e.res
							}
							break
						}
					}
				}
				if isNew && cfg.Churn > 0 {
					if cv := ChurnEval(u, m, full, cfg.Churn, st); cv != nil {
						if e.report(cv, full, fmt.Sprintf("churn-%d", cfg.Churn)) {
							return e.res
						}
					}
				}
				if isNew {
					id := int32(len(e.rec))
					e.rec = append(e.rec, stateRec{parent: sid, op: op, depth: int32(len(full))})
					next = append(next, id)
					if len(full) > st.MaxDepth {
						st.MaxDepth = len(full)
					}
					if cfg.MaxStates > 0 && st.States+st.Variants >= cfg.MaxStates {
						st.Exhaustive = false
						st.CapHit = fmt.Sprintf("state cap %d", cfg.MaxStates)
						return e.res
					}
				}
			}
		}
		st.Levels++
		frontier = next
	}
	if st.Unexpanded > 0 {
		// the closure is complete on the dedup key; raw variants beyond R were seen but not expanded
		st.CapHit = fmt.Sprintf("raw-variant cap %d per state (closure complete on dedup key)", cfg.RawVariants)
	}
	if len(e.rec) > 1 {
		st.Samples = append(st.Samples, "deepest: "+u.PathString(e.pathOf(int32(len(e.rec)-1))))
	}
	return e.res
}

func erasedKey(d Driver, scratch *[]byte) Hash {
	b := Serialize((*scratch)[:0], d.Dump(), KeyErased, nil)
	*scratch = b
	return HashOf(b)
}
