// Package hist is engine E1: explicit-state search over operation histories of
// real go-art trees, with per-property monitors.
package hist

import (
	"fmt"
	"math"

	art "github.com/Clement-Jean/go-art"
)

// Pair is one (key,value) observation. K is the universe index of the key's
// identity class, or -1-n for a key outside the universe (Str then describes it).
type Pair struct {
	K   int
	V   int
	Str string // only set when K < 0
}

func (p Pair) String() string {
	if p.K < 0 {
		return fmt.Sprintf("<?%s>=%d", p.Str, p.V)
	}
	return fmt.Sprintf("k%d=%d", p.K, p.V)
}

// SeqKind names the sequence-returning methods.
type SeqKind int

const (
	SeqAll SeqKind = iota
	SeqBackward
	SeqPrefix
	SeqRange
	SeqTopK
	SeqBottomK
)

func (s SeqKind) String() string {
	return [...]string{"All", "Backward", "Prefix", "Range", "TopK", "BottomK"}[s]
}

// Query designates one sequence-returning call.
type Query struct {
	Kind SeqKind
	A, B int  // key indexes (Prefix: A; Range: A,B)
	N    uint // TopK/BottomK
}

func (q Query) String() string {
	switch q.Kind {
	case SeqPrefix:
		return fmt.Sprintf("Prefix(k%d)", q.A)
	case SeqRange:
		return fmt.Sprintf("Range(k%d,k%d)", q.A, q.B)
	case SeqTopK, SeqBottomK:
		if q.N == math.MaxUint {
			return fmt.Sprintf("%s(MaxUint)", q.Kind)
		}
		return fmt.Sprintf("%s(%d)", q.Kind, q.N)
	}
	return q.Kind.String() + "()"
}

// Driver is a type-erased handle on one real tree whose keys are addressed by
// universe index.
type Driver interface {
	Insert(k, v int)
	Delete(k int) bool
	Search(k int) (int, bool)
	Min() (Pair, bool)
	Max() (Pair, bool)
	Size() int
	// Seq returns the sequence value for q; calling the result runs one
	// iteration, yield returning false asks to stop.
	Seq(q Query) func(yield func(Pair) bool)
	Dump() *art.VerifNode
	Poison(fill func(keyPos int) byte)
	Tree() any
}

// KeySpec describes the keys of a universe for one concrete key type.
type KeySpec[K any] struct {
	Keys  []K
	Ident func(K) string // identity (NaNs merged, -0 != +0, byte content)
	Fresh func(K) K      // a fresh copy to hand to the tree (nil: pass as is)
	Str   func(K) string // printable
}

type drv[K any] struct {
	t     art.Tree[K, int]
	spec  *KeySpec[K]
	index map[string]int
}

// NewDriver wraps a fresh tree.
func NewDriver[K any](t art.Tree[K, int], spec *KeySpec[K], index map[string]int) Driver {
	return &drv[K]{t: t, spec: spec, index: index}
}

// BuildIndex maps identity -> smallest key index with that identity.
func BuildIndex[K any](spec *KeySpec[K]) (index map[string]int, class []int) {
	index = map[string]int{}
	class = make([]int, len(spec.Keys))
	for i, k := range spec.Keys {
		id := spec.Ident(k)
		if j, ok := index[id]; ok {
			class[i] = j
		} else {
			index[id] = i
			class[i] = i
		}
	}
	return
}

func (d *drv[K]) key(i int) K {
	k := d.spec.Keys[i]
	if d.spec.Fresh != nil {
		return d.spec.Fresh(k)
	}
	return k
}

func (d *drv[K]) pair(k K, v int) Pair {
	id := d.spec.Ident(k)
	if i, ok := d.index[id]; ok {
		return Pair{K: i, V: v}
	}
	return Pair{K: -1, V: v, Str: d.spec.Str(k)}
}

func (d *drv[K]) Insert(k, v int)          { d.t.Insert(d.key(k), v) }
func (d *drv[K]) Delete(k int) bool        { return d.t.Delete(d.key(k)) }
func (d *drv[K]) Search(k int) (int, bool) { return d.t.Search(d.key(k)) }
func (d *drv[K]) Size() int                { return d.t.Size() }
func (d *drv[K]) Tree() any                { return d.t }
func (d *drv[K]) Min() (Pair, bool) {
	k, v, ok := d.t.Minimum()
	if !ok {
		return Pair{}, false
	}
	return d.pair(k, v), true
}
func (d *drv[K]) Max() (Pair, bool) {
	k, v, ok := d.t.Maximum()
	if !ok {
		return Pair{}, false
	}
	return d.pair(k, v), true
}

func (d *drv[K]) Seq(q Query) func(yield func(Pair) bool) {
	var s func(func(K, int) bool)
	switch q.Kind {
	case SeqAll:
		s = d.t.All()
	case SeqBackward:
		s = d.t.Backward()
	case SeqPrefix:
		s = d.t.Prefix(d.key(q.A))
	case SeqRange:
		s = d.t.Range(d.key(q.A), d.key(q.B))
	case SeqTopK:
		s = d.t.TopK(q.N)
	case SeqBottomK:
		s = d.t.BottomK(q.N)
	}
	return func(yield func(Pair) bool) {
		s(func(k K, v int) bool { return yield(d.pair(k, v)) })
	}
}

func (d *drv[K]) Dump() *art.VerifNode {
	n, ok := art.VerifDump(d.t)
	if !ok {
		panic("VerifDump: not a go-art tree")
	}
	return n
}

func (d *drv[K]) Poison(fill func(int) byte) { art.VerifPoisonStale(d.t, fill) }

// AliasProbe issues read-only queries whose arguments are sub-slices of keys the tree itself
// returned (partial-path arguments with spare capacity that may be tree-owned memory). Only
// meaningful for []byte keys; a no-op otherwise.
func (d *drv[K]) AliasProbe() {
	var keys [][]byte
	d.t.All()(func(k K, _ int) bool {
		if b, ok := any(k).([]byte); ok {
			keys = append(keys, b)
		}
		return true
	})
	for _, b := range keys {
		for cut := 0; cut < len(b); cut++ {
			arg := any(b[:cut]).(K)
			d.t.Search(arg)
			d.t.Prefix(arg)(func(K, int) bool { return false })
			d.t.Range(arg, arg)(func(K, int) bool { return false })
		}
	}
}

// Collect drives a sequence to completion.
func Collect(s func(func(Pair) bool)) []Pair {
	var out []Pair
	s(func(p Pair) bool { out = append(out, p); return true })
	return out
}

// ---- generic value types (C18) ----

// ValSpec maps value indexes to freshly heap-allocated values of type V and back.
type ValSpec[V any] struct {
	Name string
	Make func(i int) V // a fresh value referenced by nobody else
	Read func(V) int   // deep decode; -1 when the value is not intact
}

type drvV[K any, V any] struct {
	t     art.Tree[K, V]
	spec  *KeySpec[K]
	index map[string]int
	vs    *ValSpec[V]
}

// NewDriverV wraps a tree with an arbitrary value type behind the int-valued Driver interface.
func NewDriverV[K any, V any](t art.Tree[K, V], spec *KeySpec[K], index map[string]int, vs *ValSpec[V]) Driver {
	return &drvV[K, V]{t: t, spec: spec, index: index, vs: vs}
}

func (d *drvV[K, V]) key(i int) K {
	k := d.spec.Keys[i]
	if d.spec.Fresh != nil {
		return d.spec.Fresh(k)
	}
	return k
}
func (d *drvV[K, V]) pair(k K, v V) Pair {
	id := d.spec.Ident(k)
	if i, ok := d.index[id]; ok {
		return Pair{K: i, V: d.vs.Read(v)}
	}
	return Pair{K: -1, V: d.vs.Read(v), Str: d.spec.Str(k)}
}
func (d *drvV[K, V]) Insert(k, v int)   { d.t.Insert(d.key(k), d.vs.Make(v)) }
func (d *drvV[K, V]) Delete(k int) bool { return d.t.Delete(d.key(k)) }
func (d *drvV[K, V]) Search(k int) (int, bool) {
	v, ok := d.t.Search(d.key(k))
	if !ok {
		return 0, false
	}
	return d.vs.Read(v), true
}
func (d *drvV[K, V]) Size() int { return d.t.Size() }
func (d *drvV[K, V]) Tree() any { return d.t }
func (d *drvV[K, V]) Min() (Pair, bool) {
	k, v, ok := d.t.Minimum()
	if !ok {
		return Pair{}, false
	}
	return d.pair(k, v), true
}
func (d *drvV[K, V]) Max() (Pair, bool) {
	k, v, ok := d.t.Maximum()
	if !ok {
		return Pair{}, false
	}
	return d.pair(k, v), true
}
func (d *drvV[K, V]) Seq(q Query) func(yield func(Pair) bool) {
	var s func(func(K, V) bool)
	switch q.Kind {
	case SeqAll:
		s = d.t.All()
	case SeqBackward:
		s = d.t.Backward()
	case SeqPrefix:
		s = d.t.Prefix(d.key(q.A))
	case SeqRange:
		s = d.t.Range(d.key(q.A), d.key(q.B))
	case SeqTopK:
		s = d.t.TopK(q.N)
	case SeqBottomK:
		s = d.t.BottomK(q.N)
	}
	return func(yield func(Pair) bool) {
		s(func(k K, v V) bool { return yield(d.pair(k, v)) })
	}
}
func (d *drvV[K, V]) Dump() *art.VerifNode {
	n, ok := art.VerifDump(d.t)
	if !ok {
		panic("VerifDump: not a go-art tree")
	}
	return n
}
func (d *drvV[K, V]) Poison(fill func(int) byte) { art.VerifPoisonStale(d.t, fill) }
