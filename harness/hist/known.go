package hist

import (
	"encoding/json"
	"os"
)

// Finding is one entry of /verif/known_findings.json.
type Finding struct {
	Property  string `json:"property"`
	ID        string `json:"id"`
	Status    string `json:"status"` // "known" | "fixed"
	Signature string `json:"signature"`
	Example   string `json:"example"`
	Commit    string `json:"commit,omitempty"`
	What      string `json:"what"`
}

var findings []Finding

// LoadFindings reads the committed list (never written at run time).
func LoadFindings(path string) error {
	b, err := os.ReadFile(path)
	if err != nil {
		return err
	}
	var f struct {
		Findings []Finding `json:"findings"`
	}
	if err := json.Unmarshal(b, &f); err != nil {
		return err
	}
	findings = f.Findings
	return nil
}

func Findings() []Finding { return findings }

// IsTaintedInsert: op is an Insert(k) executed while the reference holds a key
// k' with one of k||00, k'||00 a proper prefix of the other (signature of D9).
func IsTaintedInsert(u *Universe, pre *Ref, op Op) bool {
	if u.PrefixRelated == nil || pre == nil || op.Kind != OpInsert {
		return false
	}
	for _, p := range pre.Sorted() {
		if u.Class[p.K] != u.Class[op.K] && u.PrefixRelated(op.K, p.K) {
			return true
		}
	}
	return false
}

// MatchKnown returns the id of the listed known finding that explains v ("" if none).
func MatchKnown(u *Universe, v *Violation) string {
	for _, f := range findings {
		if f.Status != "known" || f.Property != v.Property {
			continue
		}
		switch f.Signature {
		case "nul-terminator-prefix-insert":
			if len(v.Path) == 0 {
				continue
			}
			pre := NewRef(u)
			for _, op := range u.Setup {
				pre.Apply(op)
			}
			for _, op := range v.Path[:len(v.Path)-1] {
				pre.Apply(op)
			}
			if IsTaintedInsert(u, pre, v.Path[len(v.Path)-1]) {
				return f.ID
			}
		}
	}
	return ""
}
