package hist

import (
	"encoding/binary"
	"fmt"
	"runtime"
	"runtime/debug"
	"strings"
	"time"

	art "github.com/Clement-Jean/go-art"
)

// C12: product closure of 2..3 trees of mixed kinds on one goroutine over the
// REAL sync.Pool, whose behaviour (order of hand-out, "Get returns New()") is
// an enumerated environment choice exercised through the verif pool hooks.

type ProductSpec struct {
	Name   string
	Trees  []*Universe
	Policy string // "lifo": most recently released node first; "fifo": oldest first
	MaxDev int    // per history: how often a whole pool class may answer New() although it holds nodes
}

// POp is one transition of the product system.
type POp struct {
	T   int `json:"t"`
	Op  Op  `json:"op"`
	Dev int `json:"dev"` // -1: none; 0..3: that pool class answers New() during this operation
}

type productRun struct {
	sp      *ProductSpec
	drv     []Driver
	ref     []*Ref
	recency map[uintptr]int // pooled node -> release rank
	tick    int
	devUsed int
}

func (sp *ProductSpec) opString(p POp) string {
	s := fmt.Sprintf("T%d.%s", p.T+1, sp.Trees[p.T].OpString(p.Op))
	if p.Dev >= 0 {
		s += fmt.Sprintf("[pool class %d answers New()]", p.Dev)
	}
	return s
}

func (sp *ProductSpec) pathString(path []POp) string {
	s := make([]string, len(path))
	for i, p := range path {
		s[i] = sp.opString(p)
	}
	return strings.Join(s, "; ")
}

// normalise drains the real pools and refills them in the policy's order;
// hide >= 0 keeps that class aside (returned) so that Gets of the class answer New().
func (r *productRun) normalise(hide int) (held []art.VerifPooled, image []byte) {
	lists := art.VerifPoolDrain()
	for k := range lists {
		l := lists[k]
		for i := range l {
			if _, ok := r.recency[l[i].Addr()]; !ok {
				r.tick++
				r.recency[l[i].Addr()] = r.tick
			}
		}
		// sort by recency: most recent first for lifo, oldest first for fifo
		for i := 1; i < len(l); i++ {
			for j := i; j > 0; j-- {
				a, b := r.recency[l[j-1].Addr()], r.recency[l[j].Addr()]
				if (r.sp.Policy == "fifo" && a > b) || (r.sp.Policy != "fifo" && a < b) {
					l[j-1], l[j] = l[j], l[j-1]
				} else {
					break
				}
			}
		}
		image = append(image, byte(k), byte(len(l)))
		for _, p := range l {
			if p.Zero {
				image = append(image, 0)
			} else {
				image = append(image, 1)
				image = append(image, p.Image...)
			}
		}
		lists[k] = l
	}
	if hide >= 0 {
		held = lists[hide]
		lists[hide] = nil
	}
	art.VerifPoolRefill(lists)
	return held, image
}

// giveBack returns nodes kept aside during an operation (they become the oldest of their class).
func (r *productRun) giveBack(kind int, held []art.VerifPooled) {
	if len(held) == 0 {
		return
	}
	lists := art.VerifPoolDrain()
	for i := range lists[kind] {
		a := lists[kind][i].Addr()
		if _, ok := r.recency[a]; !ok {
			r.tick++
			r.recency[a] = r.tick
		}
	}
	lists[kind] = append(lists[kind], held...)
	art.VerifPoolRefill(lists)
}

func (sp *ProductSpec) start() (*productRun, string) {
	art.VerifPoolDrain() // every execution starts from empty pools
	r := &productRun{sp: sp, recency: map[uintptr]int{}}
	for _, u := range sp.Trees {
		d := u.New()
		ref := NewRef(u)
		r.drv = append(r.drv, d)
		r.ref = append(r.ref, ref)
	}
	for i, u := range sp.Trees {
		for j, op := range u.Setup {
			r.normalise(-1)
			if _, p := apply(r.drv[i], op); p != "" {
				return r, fmt.Sprintf("panic in setup op %d of tree %d (%s): %s", j, i+1, u.OpString(op), p)
			}
			r.ref[i].Apply(op)
		}
	}
	return r, ""
}

type pResult struct {
	del bool
	pan string
}

func (r *productRun) step(p POp) pResult {
	held, _ := r.normalise(p.Dev)
	var res pResult
	res.del, res.pan = apply(r.drv[p.T], p.Op)
	r.ref[p.T].Apply(p.Op)
	if p.Dev >= 0 {
		if len(held) > 0 {
			r.devUsed++
		}
		r.giveBack(p.Dev, held)
	}
	return res
}

// key serialises the product state: every tree (dedup serialisation), the pools, deviations used.
func (r *productRun) key(scratch *[]byte) Hash {
	b := (*scratch)[:0]
	for i := range r.drv {
		b = binary.AppendVarint(b, int64(r.drv[i].Size()))
		b = Serialize(b, r.drv[i].Dump(), KeyDedup, nil)
		b = append(b, 0xfe)
	}
	_, img := r.normalise(-1)
	b = append(b, img...)
	b = append(b, byte(r.devUsed))
	*scratch = b
	return HashOf(b)
}

var c12Monitor = MonMulti{Prop: "C12", Mons: []Monitor{MonC01{}, MonC02{}, MonC05{}, MonC06{}, MonC11{}}}

// checkAll evaluates every tree against its own ideal map and canonical structure.
func (r *productRun) checkAll(st *Stats, why string) *Violation {
	// read-only calls are operations too: a bundle of queries incl. abandoned sequences on every tree first (whatever a
	// query takes from or leaves in the pool is in play for the next operation of any tree)
	for i, u := range r.sp.Trees {
		WarmSequences(u, r.drv[i])
	}
	for i, u := range r.sp.Trees {
		x := &Exec{U: u, D: r.drv[i], Ref: r.ref[i], Stats: st}
		if v := c12Monitor.State(x); v != nil {
			v.What = fmt.Sprintf("tree %d (%s) %s: %s", i+1, u.Name, why, v.What)
			return v
		}
		var dump *art.VerifNode
		if p := safely(func() { dump = r.drv[i].Dump() }); p != "" {
			return viol(fmt.Sprintf("tree %d (%s) %s: structural walk", i+1, u.Name, why), "walkable", "panic: "+p)
		}
		if err := CheckStructure(u, dump, r.ref[i], r.drv[i].Size()); err != nil {
			return viol(fmt.Sprintf("tree %d (%s) %s: index structure with content %s", i+1, u.Name, why, r.ref[i]),
				"the compressed radix tree of its own key set (a tree emptied by deletions is a new tree)", err.Error()+" | dump: "+DumpString(dump))
		}
	}
	return nil
}

// epilogue drives every tree through all size classes (fill with its filler
// keys, drain, refill, drain) so that latent damage in recycled nodes becomes a
// wrong result. Deterministic; executed on a replayed copy of every new state.
func (r *productRun) epilogue(st *Stats) *Violation {
	phase := func(insert bool, name string) *Violation {
		for i, u := range r.sp.Trees {
			ks := u.Filler
			for n := range ks {
				k := ks[n]
				if !insert {
					k = ks[len(ks)-1-n]
				}
				op := Op{Kind: OpInsert, K: k, V: 1}
				if !insert {
					op = Op{Kind: OpDelete, K: k}
				}
				_, was := r.ref[i].Get(k)
				res := r.step(POp{T: i, Op: op, Dev: -1})
				st.Transitions++
				what := fmt.Sprintf("tree %d (%s) during %s: %s with content %s", i+1, u.Name, name, u.OpString(op), r.ref[i])
				if res.pan != "" {
					return viol(what, "returns normally", "panic: "+res.pan)
				}
				if !insert && res.del != was {
					return viol(what, fmt.Sprint(was), fmt.Sprint(res.del))
				}
				var v int
				var ok bool
				if p := safely(func() { v, ok = r.drv[i].Search(k) }); p != "" {
					return viol(what+", then Search of the same key", "returns", "panic: "+p)
				}
				st.Evaluations++
				if ok != insert || (ok && v != 1) {
					return viol(what+", then Search of the same key", fmt.Sprintf("(1,%v)", insert), fmt.Sprintf("(%d,%v)", v, ok))
				}
				if got := r.drv[i].Size(); got != r.ref[i].Len() {
					return viol(what+", then Size()", fmt.Sprint(r.ref[i].Len()), fmt.Sprint(got))
				}
			}
		}
		return r.checkAll(st, "after "+name)
	}
	for _, ph := range []struct {
		ins  bool
		name string
	}{{true, "epilogue fill 1"}, {false, "epilogue drain 1"}, {true, "epilogue fill 2"}, {false, "epilogue drain 2"}} {
		if v := phase(ph.ins, ph.name); v != nil {
			return v
		}
	}
	return nil
}

// EvalProduct replays a product history and checks the final state (+ epilogue): the replay primitive.
func EvalProduct(sp *ProductSpec, path []POp, st *Stats) (*Violation, error) {
	if st == nil {
		st = &Stats{}
	}
	r, perr := sp.start()
	if perr != "" {
		return nil, fmt.Errorf("%s", perr)
	}
	for i, p := range path {
		u := sp.Trees[p.T]
		_, was := r.ref[p.T].Get(p.Op.K)
		res := r.step(p)
		last := i == len(path)-1
		if res.pan != "" || (p.Op.Kind == OpDelete && res.del != was) {
			if !last {
				return nil, fmt.Errorf("faulty operation %d (%s) inside a replayed prefix", i, sp.opString(p))
			}
			what := fmt.Sprintf("%s with contents %s", sp.opString(p), r.refString())
			if res.pan != "" {
				return viol(what, "returns normally", "panic: "+res.pan), nil
			}
			return viol(what, fmt.Sprint(was), fmt.Sprint(res.del)), nil
		}
		_ = u
	}
	if v := r.checkAll(st, "after the history"); v != nil {
		return v, nil
	}
	return r.epilogue(st), nil
}

func (r *productRun) refString() string {
	s := make([]string, len(r.ref))
	for i := range r.ref {
		s[i] = fmt.Sprintf("T%d=%s", i+1, r.ref[i])
	}
	return strings.Join(s, " ")
}

// PoolSelfTest makes sure the pool hooks control the order of hand-out in this process.
func PoolSelfTest() error {
	art.VerifPoolDrain()
	// release a few node4s through real trees (a fresh tree per round: the self-test must not depend on how an
	// emptied tree behaves, that is the property's business)
	for round := 0; round < 3; round++ {
		t := art.NewUnsignedBinaryTree[uint8, int]()
		t.Insert(1, 1)
		t.Insert(2, 1)
		t.Delete(1)
		t.Delete(2)
	}
	l := art.VerifPoolDrain()
	if len(l[0]) == 0 {
		return fmt.Errorf("pool self-test: no node4 came back from the pool (GOMAXPROCS(1) and collector off required)")
	}
	// build three distinct nodes and check the refill order is the Get order
	var three [4][]art.VerifPooled
	three[0] = l[0]
	for attempt := 0; len(three[0]) < 3; attempt++ {
		if attempt == 10 {
			return fmt.Errorf("pool self-test: growing a 4-slot node ten times released %d node4s in all", len(three[0]))
		}
		t := art.NewUnsignedBinaryTree[uint8, int]()
		for k := uint8(1); k <= 5; k++ {
			t.Insert(k, 1) // the fifth grows the node: node4 released
		}
		m := art.VerifPoolDrain()
		three[0] = append(three[0], m[0]...)
	}
	want := []uintptr{}
	for _, p := range three[0] {
		want = append(want, p.Addr())
	}
	art.VerifPoolRefill(three)
	got := art.VerifPoolDrain()
	if len(got[0]) != len(want) {
		return fmt.Errorf("pool self-test: refilled %d nodes, drained %d", len(want), len(got[0]))
	}
	for i := range want {
		if got[0][i].Addr() != want[i] {
			return fmt.Errorf("pool self-test: hand-out order differs from refill order at %d", i)
		}
	}
	return nil
}

type pRec struct {
	parent int32
	op     POp
	depth  int32
}

// ExploreProduct runs the product closure.
func ExploreProduct(sp *ProductSpec, tier string, deadline time.Duration, maxStates int) *Result {
	start := time.Now()
	debug.SetGCPercent(-1)
	debug.SetMemoryLimit(3 << 30)
	runtime.GOMAXPROCS(1)
	res := &Result{Universe: "product/" + sp.Name, Property: "C12"}
	st := &res.Stats
	st.Exhaustive = true
	defer func() { st.WallS = time.Since(start).Seconds() }()
	if err := PoolSelfTest(); err != nil {
		res.HarnessErr = err.Error()
		return res
	}
	var recs []pRec
	pathOf := func(id int32) []POp {
		p := make([]POp, recs[id].depth)
		for id > 0 {
			r := recs[id]
			p[r.depth-1] = r.op
			id = r.parent
		}
		return p
	}
	fail := func(v *Violation, path []POp) *Result {
		v.Property, v.Universe, v.Tier = "C12", res.Universe, tier
		v.PathStr = sp.pathString(path)
		v.Product = path
		var setups []string
		for i, u := range sp.Trees {
			setups = append(setups, fmt.Sprintf("T%d(%s): %s", i+1, u.Name, u.PathString(u.Setup)))
		}
		v.SetupStr = strings.Join(setups, " || ")
		for i := 0; i < 5; i++ {
			v2, err := EvalProduct(sp, path, nil)
			if err != nil || v2 == nil || v2.What != v.What || v2.Observed != v.Observed {
				res.HarnessErr = fmt.Sprintf("violation did not reproduce on re-run %d: %v / %v (first: %s)", i, v2, err, v)
				return res
			}
		}
		res.Violations = append(res.Violations, v)
		st.Exhaustive = false
		st.CapHit = "stopped at first violation"
		return res
	}
	// initial state
	if v, err := EvalProduct(sp, nil, st); err != nil {
		res.HarnessErr = err.Error()
		return res
	} else if v != nil {
		return fail(v, nil)
	}
	var scratch []byte
	seen := map[Hash]struct{}{}
	r0, _ := sp.start()
	seen[r0.key(&scratch)] = struct{}{}
	recs = append(recs, pRec{parent: -1})
	st.States = 1
	// alphabet
	var ops []POp
	for t, u := range sp.Trees {
		for _, k := range u.Free {
			ops = append(ops, POp{T: t, Op: Op{Kind: OpInsert, K: k, V: 1}, Dev: -1})
		}
		for _, k := range u.Free {
			ops = append(ops, POp{T: t, Op: Op{Kind: OpDelete, K: k}, Dev: -1})
		}
	}
	frontier := []int32{0}
	sinceGC := 0
	for len(frontier) > 0 {
		var next []int32
		for _, sid := range frontier {
			path := pathOf(sid)
			for _, base := range ops {
				for dev := -1; dev < 4; dev++ {
					if deadline > 0 && time.Since(start) > deadline {
						st.Exhaustive = false
						st.CapHit = "deadline " + deadline.String()
						return res
					}
					sinceGC++
					if sinceGC >= 2000 {
						runtime.GC()
						sinceGC = 0
					}
					r, perr := sp.start()
					if perr != "" {
						res.HarnessErr = perr
						return res
					}
					for _, p := range path {
						r.step(p)
					}
					if dev >= 0 {
						if r.devUsed >= sp.MaxDev {
							break
						}
						// only meaningful when that class holds nodes right now
						_, img := r.normalise(-1)
						_ = img
						lists := art.VerifPoolDrain()
						n := len(lists[dev])
						art.VerifPoolRefill(lists)
						if n == 0 {
							continue
						}
					}
					op := base
					op.Dev = dev
					full := append(path[:len(path):len(path)], op)
					_, was := r.ref[op.T].Get(op.Op.K)
					pr := r.step(op)
					st.Transitions++
					what := fmt.Sprintf("%s with contents %s", sp.opString(op), r.refString())
					if pr.pan != "" {
						return fail(viol(what, "returns normally", "panic: "+pr.pan), full)
					}
					if op.Op.Kind == OpDelete && pr.del != was {
						return fail(viol(what, fmt.Sprint(was), fmt.Sprint(pr.del)), full)
					}
					k := r.key(&scratch)
					if _, ok := seen[k]; ok {
						continue
					}
					seen[k] = struct{}{}
					st.States++
					if v := r.checkAll(st, "after the history"); v != nil {
						return fail(v, full)
					}
					if v := r.epilogue(st); v != nil {
						return fail(v, full)
					}
					id := int32(len(recs))
					recs = append(recs, pRec{parent: sid, op: op, depth: int32(len(full))})
					next = append(next, id)
					if len(full) > st.MaxDepth {
						st.MaxDepth = len(full)
					}
					if maxStates > 0 && st.States >= maxStates {
						st.Exhaustive = false
						st.CapHit = fmt.Sprintf("state cap %d", maxStates)
						return res
					}
				}
			}
		}
		st.Levels++
		frontier = next
	}
	if len(recs) > 1 {
		st.Samples = append(st.Samples, "shortest: "+sp.pathString(pathOf(1)), "deepest: "+sp.pathString(pathOf(int32(len(recs)-1))))
	}
	return res
}
