package hist

import "fmt"

// UniverseDef is a lazily built universe.
type UniverseDef struct {
	Name  string
	Build func() *Universe
}

func MonitorFor(prop string) Monitor {
	switch prop {
	case "C01":
		return MonC01{}
	case "C02":
		return MonC02{}
	case "C03":
		return MonC03{}
	case "C04":
		return MonC04{}
	case "C05":
		return MonC05{}
	case "C06":
		return MonC06{}
	case "C11":
		return MonC11{}
	case "C14":
		return MonC14{}
	case "C15":
		return MonC15{}
	case "C13":
		return MonC13{}
	case "C10":
		return MonMulti{Prop: "C10", Mons: []Monitor{MonC01{}, MonC02{}, MonC05{}}}
	case "C09":
		return MonMulti{Prop: "C09", Mons: []Monitor{MonC01{}, MonC02{}, MonC03{}, MonC05{}, MonC06{}, MonC11{}}}
	case "C08":
		return MonMulti{Prop: "C08", Mons: []Monitor{MonC01{}, MonC02{}, MonC05{}, MonC06{}}}
	}
	return nil
}

// Registry lists the universes explored for a property in a tier.
func Registry(prop, tier string) []UniverseDef {
	var out []UniverseDef
	add := func(u func() *Universe, name string) { out = append(out, UniverseDef{Name: name, Build: u}) }
	if prop == "C08" {
		return CollationRegistry(prop, tier)
	}
	if prop == "C09" {
		return CompoundRegistry(tier)
	}
	if prop == "C10" {
		return NodeTableRegistry(tier)
	}
	if prop == "C13" {
		return C13Registry(tier)
	}
	if prop != "C04" {
		// a few compound universes take part in every tree-level property
		keep := map[string]bool{"compound[u64,u64,str]/LONG": true, "compound[u64,u64,str]/VALS": true, "compound[u8,str]/PRODUCT": true,
			"compound[i16,f32]/PRODUCT": true, "compound[f64,u8,str]/PRODUCT": true, "compound[int,i8]/PRODUCT": true}
		for _, d := range CompoundRegistry("thorough") {
			if keep[d.Name] {
				out = append(out, d)
			}
		}
	}
	if prop != "C03" {
		defer func() {}()
		out = append(out, CollationRegistry(prop, tier)...)
	}
	for _, sp := range AlphaFamilies(tier) {
		for _, kt := range []string{"string", "[]byte"} {
			sp, kt := sp, kt
			if kt == "[]byte" && tier != "thorough" && len(sp.Setup) > 0 {
				continue // quick: fan windows on string keys only
			}
			add(func() *Universe { return NewAlphaUniverse(sp, kt) }, "alpha["+kt+"]/"+sp.Name)
		}
	}
	if prop != "C04" {
		out = append(out, NumericRegistry(tier)...)
	}
	if prop == "C01" {
		add(func() *Universe { return NewAlphaUniverse(NulSpec(), "string") }, "alpha[string]/NUL")
	}
	return out
}

func FindUniverse(prop, tier, name string) (*Universe, error) {
	for _, t := range []string{tier, "thorough", "quick"} {
		for _, d := range Registry(prop, t) {
			if d.Name == name {
				return d.Build(), nil
			}
		}
	}
	return nil, fmt.Errorf("no universe %q for %s", name, prop)
}

func ConfigFor(prop, tier string) Config {
	c := Config{Tier: tier, RawVariants: 4, Poison: true, Warm: true, MaxStates: 400000}
	if tier == "thorough" {
		c.RawVariants = 16
		c.MaxStates = 3000000
	}
	return c
}
