package hist

import (
	"fmt"
	"math"
	"strings"

	art "github.com/Clement-Jean/go-art"
)

// UniverseDef is a lazily built universe.
type UniverseDef struct {
	Name  string
	Build func() *Universe
}

func MonitorFor(prop string) Monitor {
	switch prop {
	case "C01":
		return MonC01{}
	case "C02":
		return MonC02{}
	case "C03":
		return MonC03{}
	case "C04":
		return MonC04{}
	case "C05":
		return MonC05{}
	case "C06":
		return MonC06{}
	case "C11":
		return MonC11{}
	case "C14":
		return MonC14{}
	case "C15":
		return MonC15{}
	case "C13":
		return MonC13{}
	case "C18":
		return MonC18{}
	case "C10":
		return MonMulti{Prop: "C10", Mons: []Monitor{MonC01{}, MonC02{}, MonC05{}}}
	case "C09":
		return MonMulti{Prop: "C09", Mons: []Monitor{MonC01{}, MonC02{}, MonC03{}, MonC05{}, MonC06{}, MonC11{}}}
	case "C08":
		return MonMulti{Prop: "C08", Mons: []Monitor{MonC01{}, MonC02{}, MonC05{}, MonC06{}}}
	}
	return nil
}

// Registry lists the universes explored for a property in a tier.
func Registry(prop, tier string) []UniverseDef {
	var out []UniverseDef
	add := func(u func() *Universe, name string) { out = append(out, UniverseDef{Name: name, Build: u}) }
	if prop == "C08" {
		return CollationRegistry(prop, tier)
	}
	if prop == "C09" {
		return CompoundRegistry(tier)
	}
	if prop == "C10" {
		return NodeTableRegistry(tier)
	}
	if prop == "C13" {
		return C13Registry(tier)
	}
	if prop == "C17" {
		return C17Registry(tier)
	}
	if prop == "C18" {
		return C18Registry(tier)
	}
	if prop != "C04" {
		// a few compound universes take part in every tree-level property
		keep := map[string]bool{"compound[u64,u64,str]/LONG": true, "compound[u64,u64,str]/VALS": true, "compound[u8,str]/LONGSTR": true, "compound[u64,u16,u8,raw]/LENPFX": true, "compound[u8,str]/PRODUCT": true,
			"compound[i16,f32]/PRODUCT": true, "compound[f64,u8,str]/PRODUCT": true, "compound[int,i8]/PRODUCT": true}
		for _, d := range CompoundRegistry("thorough") {
			if keep[d.Name] || strings.Contains(d.Name, "/CFAN") {
				out = append(out, d)
			}
		}
	}
	if prop != "C03" {
		defer func() {}()
		out = append(out, CollationRegistry(prop, tier)...)
	}
	for _, sp := range AlphaFamilies(tier) {
		for _, kt := range []string{"string", "[]byte"} {
			sp, kt := sp, kt
			if kt == "[]byte" && tier != "thorough" && len(sp.Setup) > 0 {
				continue // quick: fan windows on string keys only
			}
			add(func() *Universe { return NewAlphaUniverse(sp, kt) }, "alpha["+kt+"]/"+sp.Name)
		}
	}
	if prop != "C04" {
		out = append(out, NumericRegistry(tier)...)
	}
	if prop == "C01" || prop == "C06" || prop == "C15" {
		// the map behaves the same whatever the value type: overwrite-rich closures with slices, `any`, odd sizes
		out = append(out, ValueTypeUniverses()...)
	}
	if prop == "C02" || prop == "C05" {
		// combs of 4-way nodes more than 64 levels deep: a traversal leaves one sibling pending per level, so the number
		// of pending entries exceeds any fixed traversal-stack capacity. COMB (a, aa, aaa, ...) does so for descending
		// traversals (the stored stem is the smaller child at every level), COMBZ (z, az, aaz, ...) for ascending ones.
		comb := AlphaSpec{Name: "COMB", NoAutoP: true, Free: []string{rep('a', 73), "b", rep('a', 40) + "b"}, Probes: []string{rep('a', 80), rep('a', 30) + "c"}}
		combz := AlphaSpec{Name: "COMBZ", NoAutoP: true, Free: []string{rep('a', 72) + "z", "b", rep('a', 40) + "b"}, Probes: []string{rep('a', 80), rep('a', 30) + "c"}}
		for i := 1; i <= 72; i++ {
			comb.Setup = append(comb.Setup, rep('a', i))
			combz.Setup = append(combz.Setup, rep('a', i-1)+"z")
		}
		for _, sp := range []AlphaSpec{comb, combz} {
			sp := sp
			add(func() *Universe { return NewAlphaUniverse(sp, "string") }, "alpha[string]/"+sp.Name)
		}
	}
	if prop == "C01" {
		add(func() *Universe { return NewAlphaUniverse(NulSpec(), "string") }, "alpha[string]/NUL")
		// byte-slice keys handed over in one reused buffer (keys are told apart by content, not by buffer identity)
		for _, d := range C13Registry(tier) {
			if strings.HasSuffix(d.Name, "/buf-shared") && !strings.Contains(d.Name, "LEN") {
				out = append(out, d)
			}
		}
	}
	// 64 KiB keys: every query and every image costs a few hundred kilobytes; the properties whose monitors compare whole
	// images or run quadratic query suites per state take them on string keys in the thorough tier only
	{
		cheap := map[string]bool{"C01": true, "C02": true, "C05": true, "C06": true, "C11": true}
		var keep []UniverseDef
		for _, d := range out {
			if strings.HasSuffix(d.Name, "/HUGE") && !cheap[prop] && !(tier == "thorough" && strings.HasPrefix(d.Name, "alpha[string]")) {
				continue
			}
			keep = append(keep, d)
		}
		out = keep
	}
	if prop == "C14" && tier != "thorough" {
		// quick tier: the stop-position x re-iteration x nesting suite is quadratic in the tree size;
		// the big fan-out windows and the byte sweeps stay in the thorough tier for this property
		var keep []UniverseDef
		for _, d := range out {
			if strings.Contains(d.Name, "BYTESWEEP") || strings.Contains(d.Name, "@46") || (strings.Contains(d.Name, "@39") && d.Name != "alpha[string]/FAN256@39/path0" && d.Name != "unsigned[uint8]/FAN256@39") || strings.Contains(d.Name, "FULL256") {
				continue
			}
			keep = append(keep, d)
		}
		out = keep
	}
	return out
}

func FindUniverse(prop, tier, name string) (*Universe, error) {
	for _, t := range []string{tier, "thorough", "quick"} {
		for _, d := range Registry(prop, t) {
			if d.Name == name {
				return d.Build(), nil
			}
		}
	}
	return nil, fmt.Errorf("no universe %q for %s", name, prop)
}

func ConfigFor(prop, tier string) Config {
	c := Config{Tier: tier, RawVariants: 4, Poison: true, Warm: true, Drain: true, Churn: 70, MaxStates: 400000}
	if tier == "thorough" {
		c.RawVariants = 16
		c.MaxStates = 3000000
	}
	if prop == "C18" {
		c.GC, c.Poison, c.Warm, c.Drain, c.RawVariants, c.Churn = true, false, false, false, 2, 0
		if tier == "thorough" {
			c.RawVariants = 4
		}
	}
	return c
}

// C17Registry: small closures of every kind supply the states whose operation cycles are pumped.
func C17Registry(tier string) []UniverseDef {
	var out []UniverseDef
	P := func(n int) string { return rep('p', n) }
	alpha := AlphaSpec{Name: "HEAP4", Free: []string{"a", "ab", P(12) + "x", P(12) + "y"}, Probes: []string{P(12), "b"}, NoAutoP: true, Prefixes: []string{"a", P(12)}}
	fan := FanUniverse(FanSpec{Name: "HEAPFAN48@13", Hold: 13, Extra: 4, Present: 2, Absent: 1})
	fan.NoAutoP = true
	fan256 := FanUniverse(FanSpec{Name: "HEAPFAN256@38", Hold: 38, Extra: 11, Present: 1, Absent: 1})
	fan256.NoAutoP = true
	for _, kt := range []string{"string", "[]byte"} {
		kt := kt
		out = append(out, UniverseDef{Name: "alpha[" + kt + "]/HEAP4", Build: func() *Universe { return NewAlphaUniverse(alpha, kt) }})
	}
	out = append(out, UniverseDef{Name: "alpha[string]/HEAPFAN48@13", Build: func() *Universe { return NewAlphaUniverse(fan, "string") }})
	if tier == "thorough" {
		out = append(out, UniverseDef{Name: "alpha[string]/HEAPFAN256@38", Build: func() *Universe { return NewAlphaUniverse(fan256, "string") }})
	}
	und := Collators()[0]
	coll := CollSpec{Name: "HEAP4", Prefix: true, Free: []string{"a", "A", "ab", P(16) + "x"}, Probes: []string{"b"}, Prefixes: []string{"a"}}
	for _, kt := range []string{"string", "[]byte", "[]rune"} {
		kt := kt
		out = append(out, UniverseDef{Name: "collation[" + kt + ",und]/HEAP4", Build: func() *Universe { return NewCollUniverse(coll, und, kt, false) }})
	}
	sv := Collators()[1]
	out = append(out, UniverseDef{Name: "collation[string,sv]/HEAP4", Build: func() *Universe { return NewCollUniverse(coll, sv, "string", true) }})
	uops := intOps[uint64](func(k uint64) []byte { _, b := art.UnsignedBinaryKey[uint64]{}.Transform(k); return b })
	out = append(out, UniverseDef{Name: "unsigned[uint64]/HEAP4", Build: func() *Universe {
		return NewNumUniverse("unsigned", "uint64", func() art.Tree[uint64, int] { return art.NewUnsignedBinaryTree[uint64, int]() },
			NumSpec[uint64]{Name: "HEAP4", Free: []uint64{0, 1, 1 << 40, math.MaxUint64}, Probes: []uint64{2}}, uops)
	}})
	iops := intOps[int16](func(k int16) []byte { _, b := art.SignedBinaryKey[int16]{}.Transform(k); return b })
	out = append(out, UniverseDef{Name: "signed[int16]/HEAP4", Build: func() *Universe {
		return NewNumUniverse("signed", "int16", func() art.Tree[int16, int] { return art.NewSignedBinaryTree[int16, int]() },
			NumSpec[int16]{Name: "HEAP4", Free: []int16{-256, -1, 0, 255}, Probes: []int16{1}}, iops)
	}})
	fops := floatOps[float64](func(k float64) []byte { _, b := art.FloatBinaryKey[float64]{}.Transform(k); return b })
	out = append(out, UniverseDef{Name: "float[float64]/HEAP4", Build: func() *Universe {
		return NewNumUniverse("float", "float64", func() art.Tree[float64, int] { return art.NewFloatBinaryTree[float64, int]() },
			NumSpec[float64]{Name: "HEAP4", Free: []float64{math.NaN(), -1.5, 0, math.Inf(1)}, Probes: []float64{1}}, fops)
	}})
	out = append(out, UniverseDef{Name: "unsigned[uint8]/HEAPFAN16@4", Build: func() *Universe {
		return pU8("HEAPFAN16@4", FanSpec{Hold: 4, Extra: 12, Present: 2, Absent: 1})
	}})
	long := Schema{Fields: []FieldType{FU64, FU64}, Str: true}
	mk := func(a, b uint64, s string) Tuple { return Tuple{N: []Num{{T: FU64, U: a}, {T: FU64, U: b}}, S: s} }
	out = append(out, UniverseDef{Name: "compound[u64,u64,str]/HEAP4", Build: func() *Universe {
		return NewCompoundUniverse("HEAP4", long, []Tuple{mk(7, 0x0101010101010100, "x"), mk(7, 0x0101010101010101, "x"), mk(8, 0, ""), mk(7, 0x0101010101010100, "")}, []Tuple{mk(6, 0, "")}, 1)
	}})
	return out
}
