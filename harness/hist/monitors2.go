package hist

import (
	"bytes"
	"encoding/binary"
	"fmt"
	"math"
	"sort"
	"strings"

	art "github.com/Clement-Jean/go-art"
)

// ---------------------------------------------------------------- C11

type MonC11 struct{}

func (MonC11) ID() string { return "C11" }

type skey struct {
	t   []byte // transformed (index) bytes
	k   []byte // stored original-form bytes
	cls int
	val int
}

func leafKeys(u *Universe, k int) (key, tkey []byte) {
	if u.LeafKey != nil {
		return u.LeafKey(k)
	}
	t := u.TKey(k)
	return t, t
}

// CheckStructure compares a structural dump with the canonical compressed
// radix tree of the reference key set.
func CheckStructure(u *Universe, dump *art.VerifNode, ref *Ref, size int) error {
	var keys []skey
	var byOrig map[string][]byte
	if u.LeafFromDump {
		byOrig = map[string][]byte{}
		var walk func(n *art.VerifNode)
		walk = func(n *art.VerifNode) {
			if n == nil {
				return
			}
			if n.Kind == 4 {
				byOrig[string(n.Key)] = n.TransformKey
				return
			}
			for _, e := range n.Edges {
				walk(e.Child)
			}
		}
		walk(dump)
	}
	for _, p := range ref.Sorted() {
		if u.LeafFromDump {
			t, ok := byOrig[string(u.OrigBytes[p.K])]
			if !ok {
				return fmt.Errorf("stored key %s has no reachable leaf", u.KeyStr[p.K])
			}
			keys = append(keys, skey{t: t, k: u.OrigBytes[p.K], cls: p.K, val: p.V})
			continue
		}
		k, t := leafKeys(u, p.K)
		keys = append(keys, skey{t: t, k: k, cls: p.K, val: p.V})
	}
	sort.Slice(keys, func(a, b int) bool { return bytes.Compare(keys[a].t, keys[b].t) < 0 })
	leaves := 0
	if err := verifyNode(u, dump, keys, 0, &leaves, "root"); err != nil {
		return err
	}
	if leaves != size {
		return fmt.Errorf("reachable keys %d but Size() reports %d", leaves, size)
	}
	return nil
}

var capacities = art.VerifCapacity()

func verifyNode(u *Universe, n *art.VerifNode, keys []skey, depth int, leaves *int, where string) error {
	if len(keys) == 0 {
		if n != nil {
			return fmt.Errorf("%s: a node where the key set has no key", where)
		}
		return nil
	}
	if n == nil {
		return fmt.Errorf("%s: no node although %d stored keys belong here (first %s)", where, len(keys), u.KeyStr[keys[0].cls])
	}
	if len(keys) == 1 {
		if n.Kind != 4 {
			return fmt.Errorf("%s: inner node (fan-out %d) above the single key %s: a branch point needs at least two children", where, n.ChildrenLen, u.KeyStr[keys[0].cls])
		}
		if !bytes.Equal(n.TransformKey, keys[0].t) {
			return fmt.Errorf("%s: leaf holds index bytes %x, the descent of %s (%x) ends here", where, n.TransformKey, u.KeyStr[keys[0].cls], keys[0].t)
		}
		if !bytes.Equal(n.Key, keys[0].k) {
			return fmt.Errorf("%s: leaf of %s holds stored key bytes %x, expected %x", where, u.KeyStr[keys[0].cls], n.Key, keys[0].k)
		}
		if v := valueInt(n.Value); v != -1 && v != keys[0].val { // -1: not an int-valued tree (C18 value types are compared through the API)
			return fmt.Errorf("%s: leaf of %s holds value %d, expected %d", where, u.KeyStr[keys[0].cls], v, keys[0].val)
		}
		*leaves++
		return nil
	}
	if n.Kind == 4 {
		return fmt.Errorf("%s: a leaf (%x) where %d keys share the path", where, n.TransformKey, len(keys))
	}
	// common extension of all keys below
	first, last := keys[0].t, keys[len(keys)-1].t
	lcp := 0
	for depth+lcp < len(first) && depth+lcp < len(last) && first[depth+lcp] == last[depth+lcp] {
		lcp++
	}
	if n.PrefixLen != lcp {
		return fmt.Errorf("%s: compressed path length %d, but the keys below share exactly %d bytes here", where, n.PrefixLen, lcp)
	}
	inl := min(lcp, len(n.Prefix))
	if !bytes.Equal(n.Prefix[:inl], first[depth:depth+inl]) {
		return fmt.Errorf("%s: inline path bytes %x, keys below share %x", where, n.Prefix[:inl], first[depth:depth+inl])
	}
	d := depth + lcp
	// group by branch byte
	type group struct {
		b    byte
		keys []skey
	}
	var groups []group
	for _, k := range keys {
		if d >= len(k.t) {
			return fmt.Errorf("%s: key %s ends at a branch point (key set not prefix-free: universe error)", where, u.KeyStr[k.cls])
		}
		b := k.t[d]
		if len(groups) == 0 || groups[len(groups)-1].b != b {
			groups = append(groups, group{b: b})
		}
		g := &groups[len(groups)-1]
		g.keys = append(g.keys, k)
	}
	if n.ChildrenLen != len(n.Edges) {
		return fmt.Errorf("%s: recorded fan-out %d but %d children are registered", where, n.ChildrenLen, len(n.Edges))
	}
	if n.Kind >= 0 && n.Kind < 4 && n.ChildrenLen > capacities[n.Kind] {
		return fmt.Errorf("%s: fan-out %d exceeds the capacity %d of its size class", where, n.ChildrenLen, capacities[n.Kind])
	}
	if len(n.Edges) != len(groups) {
		var have, want []byte
		for _, e := range n.Edges {
			have = append(have, e.Byte)
		}
		for _, g := range groups {
			want = append(want, g.b)
		}
		return fmt.Errorf("%s: children registered under bytes %x, the keys below branch on %x", where, have, want)
	}
	slots := map[int]bool{}
	for i, e := range n.Edges {
		if e.Byte != groups[i].b {
			return fmt.Errorf("%s: child %d registered under byte %02x, expected %02x (ascending distinct branch bytes)", where, i, e.Byte, groups[i].b)
		}
		if slots[e.Slot] {
			return fmt.Errorf("%s: two bytes share child slot %d", where, e.Slot)
		}
		slots[e.Slot] = true
		if n.Kind == 2 && (e.Slot < 0 || e.Slot >= capacities[2]) {
			return fmt.Errorf("%s: byte %02x maps to slot %d outside the node", where, e.Byte, e.Slot)
		}
		if err := verifyNode(u, e.Child, groups[i].keys, d+1, leaves, fmt.Sprintf("%s/%02x", where, e.Byte)); err != nil {
			return err
		}
	}
	return nil
}

func (MonC11) check(x *Exec, what string) *Violation {
	var dump *art.VerifNode
	if p := safely(func() { dump = x.D.Dump() }); p != "" {
		return viol("structural walk "+what, "walkable index", "panic: "+p)
	}
	x.Stats.Evaluations++
	if x.Ref.Len() > 1 {
		x.Stats.Nontrivial++
	}
	if err := CheckStructure(x.U, dump, x.Ref, x.D.Size()); err != nil {
		return viol("index structure "+what+" with content "+x.Ref.String(), "the compressed radix tree of the key set", err.Error()+" | dump: "+DumpString(dump))
	}
	return nil
}

func (m MonC11) Transition(x *Exec) *Violation {
	if x.Panic != "" || transitionFaulty(x) {
		return nil
	}
	return m.check(x, "after "+x.U.OpString(x.Op))
}

func (m MonC11) State(x *Exec) *Violation {
	if x.Pre == nil { // initial / setup states
		return m.check(x, "of the initial state")
	}
	return nil
}

// ---------------------------------------------------------------- C14

type MonC14 struct{}

func (MonC14) ID() string                    { return "C14" }
func (MonC14) Transition(x *Exec) *Violation { return nil }

// seqQueries lists the sequence calls examined in a state.
func seqQueries(u *Universe, ref *Ref, maxPairs int) []Query {
	qs := []Query{{Kind: SeqAll}, {Kind: SeqBackward}}
	if u.HasPrefix {
		for _, p := range u.Prefixes {
			qs = append(qs, Query{Kind: SeqPrefix, A: p})
		}
	}
	if u.HasRange || u.Kind == "collation" { // collation Range has no specified result, but it is a sequence like any other
		n := len(u.Bounds)
		total := n * n
		step := 1
		if total > maxPairs {
			step = total/maxPairs + 1
			// a stride coprime to n so both coordinates vary
			for gcd(step, n) != 1 {
				step++
			}
		}
		for i := 0; i < total; i += step {
			a, b := u.Bounds[i/n], u.Bounds[i%n]
			if u.RangeSkip != nil && u.RangeSkip(a, b) {
				continue
			}
			if _, skip := RangeExpected(u, ref, a, b); skip {
				continue
			}
			qs = append(qs, Query{Kind: SeqRange, A: a, B: b})
		}
	}
	sz := uint(ref.Len())
	for _, n := range []uint{0, 1, 2, sz, sz + 1, math.MaxUint} {
		qs = append(qs, Query{Kind: SeqTopK, N: n}, Query{Kind: SeqBottomK, N: n})
	}
	return qs
}

func gcd(a, b int) int {
	for b != 0 {
		a, b = b, a%b
	}
	return a
}

func (MonC14) State(x *Exec) *Violation {
	u := x.U
	for _, q := range seqQueries(u, x.Ref, 40) {
		var seq func(func(Pair) bool)
		if p := safely(func() { seq = x.D.Seq(q) }); p != "" {
			continue // obtaining the sequence faults: owned by C02..C05
		}
		var full []Pair
		if p := safely(func() { full = Collect(seq) }); p != "" {
			continue
		}
		what := fmt.Sprintf("%s with content %s", u.QueryString(q), x.Ref)
		for stop := 1; stop <= len(full); stop++ {
			var got []Pair
			after := 0
			stopped := false
			p := safely(func() {
				seq(func(pr Pair) bool {
					if stopped {
						after++
						return false
					}
					got = append(got, pr)
					if len(got) == stop {
						stopped = true
						return false
					}
					return true
				})
			})
			x.Stats.Evaluations++
			x.Stats.Nontrivial++
			if p != "" {
				return viol(fmt.Sprintf("%s stopped after %d of %d elements", what, stop, len(full)), "returns normally", "panic: "+p)
			}
			if after != 0 {
				return viol(fmt.Sprintf("%s stopped after %d of %d elements", what, stop, len(full)), "no further callbacks after yield returned false", fmt.Sprintf("%d further callbacks", after))
			}
			if !PairsEqual(got, full[:stop]) && len(full[:stop]) > 0 {
				return viol(fmt.Sprintf("%s stopped after %d of %d elements", what, stop, len(full)), PairsString(u, full[:stop]), PairsString(u, got))
			}
		}
		// nested passes over the same sequence value (an all-pairs loop): an inner pass, complete or
		// abandoned, started from inside the outer pass must not disturb either of them
		if len(full) >= 2 {
			// inner passes started from inside the outer pass at its first, second and last element: a complete one, an
			// abandoned one, and an abandoned one followed by a complete one (a pass that hands back, on its early exit,
			// something it had not borrowed would give the third pass the outer pass's working memory)
			for _, mode := range []string{"complete", "abandoned", "abandoned, then complete"} {
				var outer []Pair
				var bad *Violation
				p := safely(func() {
					seq(func(pr Pair) bool {
						outer = append(outer, pr)
						if n := len(outer); n == 1 || n == 2 || n == len(full) {
							if mode != "complete" {
								var inner []Pair
								seq(func(in Pair) bool { inner = append(inner, in); return false })
								if !PairsEqual(inner, full[:1]) && bad == nil {
									bad = viol(fmt.Sprintf("%s, abandoned inner pass started at element %d of an outer pass over the same sequence value", what, n), PairsString(u, full[:1]), PairsString(u, inner))
								}
							}
							if mode != "abandoned" {
								inner := Collect(seq)
								if !PairsEqual(inner, full) && bad == nil {
									bad = viol(fmt.Sprintf("%s, inner pass (%s) started at element %d of an outer pass over the same sequence value", what, mode, n), PairsString(u, full), PairsString(u, inner))
								}
							}
						}
						return true
					})
				})
				x.Stats.Evaluations++
				if p != "" {
					return viol(what+", passes ("+mode+") nested inside another pass over the same sequence value", PairsString(u, full), "panic: "+p)
				}
				if bad != nil {
					return bad
				}
				if !PairsEqual(outer, full) {
					return viol(what+", outer pass with inner passes ("+mode+") over the same sequence value", PairsString(u, full), PairsString(u, outer))
				}
			}
		}
		for pass := 2; pass <= 3; pass++ {
			var again []Pair
			if pass == 3 {
				// other read-only calls (and other sequences) in between: the tree is still unchanged
				WarmQueries(u, x.D)
			}
			p := safely(func() { again = Collect(seq) })
			x.Stats.Evaluations++
			if p != "" {
				return viol(fmt.Sprintf("%s, pass %d over the same sequence value", what, pass), PairsString(u, full), "panic: "+p)
			}
			if len(again) != len(full) || (len(full) > 0 && !PairsEqual(again, full)) {
				return viol(fmt.Sprintf("%s, pass %d over the same sequence value", what, pass), PairsString(u, full), PairsString(u, again))
			}
		}
	}
	return nil
}

// ---------------------------------------------------------------- C15

type MonC15 struct{}

func (MonC15) ID() string                    { return "C15" }
func (MonC15) Transition(x *Exec) *Violation { return nil }

func rawImage(d Driver, valOf func(any) int) ([]byte, string) {
	var out []byte
	p := safely(func() {
		out = binary.AppendVarint(out, int64(d.Size()))
		out = Serialize(out, d.Dump(), KeyRaw, valOf)
	})
	return out, p
}

func (MonC15) State(x *Exec) *Violation {
	u := x.U
	d := x.D
	before, p := rawImage(d, nil)
	if p != "" {
		return nil
	}
	check := func(group string) *Violation {
		x.Stats.Evaluations++
		x.Stats.Nontrivial++
		after, p := rawImage(d, nil)
		if p != "" {
			return viol("structural walk after "+group, "walkable", "panic: "+p)
		}
		if !bytes.Equal(before, after) {
			return viol(group+" with content "+x.Ref.String(), "tree unchanged (complete raw dump incl. stale lanes, all inline bytes, size)", "raw dump differs; after: "+DumpString(d.Dump()))
		}
		return nil
	}
	for _, q := range u.Probes {
		safely(func() { d.Search(q) })
	}
	if v := check("Search of every probe key"); v != nil {
		return v
	}
	safely(func() { d.Min(); d.Max(); d.Size() })
	if v := check("Minimum/Maximum/Size"); v != nil {
		return v
	}
	qs := seqQueries(u, x.Ref, 60)
	byKind := map[SeqKind][]Query{}
	for _, q := range qs {
		byKind[q.Kind] = append(byKind[q.Kind], q)
	}
	for _, kind := range []SeqKind{SeqAll, SeqBackward, SeqPrefix, SeqRange, SeqTopK, SeqBottomK} {
		if len(byKind[kind]) == 0 {
			continue
		}
		for _, q := range byKind[kind] {
			collectSafe(d, q)
		}
		if v := check(kind.String() + " sequences driven to completion"); v != nil {
			return v
		}
		for _, q := range byKind[kind] {
			for _, stop := range []int{1, 2} {
				n := 0
				safely(func() {
					d.Seq(q)(func(Pair) bool { n++; return n < stop })
				})
			}
		}
		if v := check(kind.String() + " sequences stopped early"); v != nil {
			return v
		}
	}
	// read-only calls between obtaining a sequence and consuming it, and from inside the loop over it,
	// do not affect what the sequence yields
	for i, q := range qs {
		if i%3 != 0 && q.Kind != SeqRange && q.Kind != SeqPrefix {
			continue
		}
		base, pan := collectSafe(d, q)
		if pan != "" {
			continue
		}
		var late, inner []Pair
		p1 := safely(func() {
			s := d.Seq(q)
			WarmQueries(u, d)
			late = Collect(s)
		})
		p2 := safely(func() {
			n := 0
			d.Seq(q)(func(pr Pair) bool {
				inner = append(inner, pr)
				if len(u.Probes) > 0 {
					d.Search(u.Probes[n%len(u.Probes)])
					n++
				}
				d.Min()
				return true
			})
		})
		x.Stats.Evaluations += 2
		same := func(a []Pair) bool { return (len(a) == 0 && len(base) == 0) || PairsEqual(a, base) }
		if p1 != "" || !same(late) {
			return viol(fmt.Sprintf("%s consumed after other read-only calls were made on the unchanged tree, content %s", u.QueryString(q), x.Ref), PairsString(u, base), PairsString(u, late)+p1)
		}
		if p2 != "" || !same(inner) {
			return viol(fmt.Sprintf("%s with Search/Minimum called from inside the loop, content %s", u.QueryString(q), x.Ref), PairsString(u, base), PairsString(u, inner)+p2)
		}
	}
	if v := check("sequences consumed with other read-only calls interleaved"); v != nil {
		return v
	}
	if ap, ok := d.(interface{ AliasProbe() }); ok && u.KeyType == "[]byte" {
		if p := safely(ap.AliasProbe); p == "" {
			if v := check("Search/Prefix/Range whose arguments are sub-slices of keys the tree returned (partial-path arguments)"); v != nil {
				return v
			}
		}
	}
	// no-op updates
	absent := append(append([]int{}, u.Free...), u.DelExtra...)
	for _, k := range absent {
		if _, present := x.Ref.Get(k); present {
			continue
		}
		res := false
		if p := safely(func() { res = d.Delete(k) }); p != "" {
			return viol(fmt.Sprintf("Delete(%s) of an absent key, content %s", u.KeyStr[k], x.Ref), "returns false and leaves the tree untouched", "panic: "+p)
		}
		if res {
			return viol(fmt.Sprintf("Delete(%s) of an absent key, content %s", u.KeyStr[k], x.Ref), "returns false and leaves the tree untouched", "returned true; tree now "+DumpString(d.Dump()))
		}
		if v := check(fmt.Sprintf("Delete(%s) of an absent key", u.KeyStr[k])); v != nil {
			return v
		}
	}
	for _, pr := range x.Ref.Sorted() {
		const other = 77 // representable in every value type of the universes (a byte suffices)
		if p := safely(func() { d.Insert(pr.K, other) }); p != "" {
			continue
		}
		x.Stats.Evaluations++
		img, p := rawImage(d, func(v any) int {
			if i := valueInt(v); i == other {
				return pr.V
			} else {
				return i
			}
		})
		if p == "" && !bytes.Equal(before, img) {
			return viol(fmt.Sprintf("Insert(%s,other value) of a present key, content %s", u.KeyStr[pr.K], x.Ref), "nothing changes but that key's value", "raw dump differs beyond the value; after: "+DumpString(d.Dump()))
		}
		if v, ok := d.Search(pr.K); !ok || v != other {
			return viol(fmt.Sprintf("Search(%s) after overwriting its value", u.KeyStr[pr.K]), fmt.Sprintf("(%d,true)", other), fmt.Sprintf("(%d,%v)", v, ok))
		}
		safely(func() { d.Insert(pr.K, pr.V) })
		if v := check(fmt.Sprintf("Insert(%s,·) overwrite and overwrite back", u.KeyStr[pr.K])); v != nil {
			return v
		}
	}
	return nil
}

// ---------------------------------------------------------------- composite

// MonMulti runs several monitors under one property id (C08, C09).
type MonMulti struct {
	Prop string
	Mons []Monitor
}

func (m MonMulti) ID() string { return m.Prop }
func (m MonMulti) Transition(x *Exec) *Violation {
	for _, s := range m.Mons {
		if v := s.Transition(x); v != nil {
			return v
		}
	}
	return nil
}
func (m MonMulti) State(x *Exec) *Violation {
	for _, s := range m.Mons {
		if v := s.State(x); v != nil {
			return v
		}
	}
	return nil
}

// Light for C15: the tree reached with read-only queries interleaved after every
// operation must be the tree reached without them, byte for byte.
func (MonC15) Light(x *Exec, clean *Exec) *Violation {
	x.Stats.Evaluations++
	a, pa := rawImage(x.D, nil)
	b, pb := rawImage(clean.D, nil)
	if pa != "" || pb != "" {
		return nil
	}
	if !bytes.Equal(a, b) {
		return viol("tree after "+x.U.OpString(x.Op)+" on a history with read-only queries interleaved after every operation", "identical to the tree reached without the queries: "+DumpString(clean.D.Dump()), DumpString(x.D.Dump()))
	}
	// ... and later results are unaffected by the interleaved queries
	obs := func(d Driver) string {
		var sb strings.Builder
		safely(func() {
			p, ok := d.Min()
			fmt.Fprintf(&sb, "min=%v,%v ", p, ok)
			p, ok = d.Max()
			fmt.Fprintf(&sb, "max=%v,%v size=%d ", p, ok, d.Size())
			for _, q := range x.U.Probes {
				v, ok := d.Search(q)
				fmt.Fprintf(&sb, "%d:%d,%v ", q, v, ok)
			}
			fmt.Fprintf(&sb, "all=%v top1=%v", Collect(d.Seq(Query{Kind: SeqAll})), Collect(d.Seq(Query{Kind: SeqTopK, N: 1})))
		})
		return sb.String()
	}
	if ow, oc := obs(x.D), obs(clean.D); ow != oc {
		return viol("results (Minimum/Maximum/Size/Search/All/TopK) after "+x.U.OpString(x.Op)+" on a history with read-only queries interleaved", "as without the queries: "+oc, ow)
	}
	return nil
}

func (m MonMulti) Light(x *Exec, clean *Exec) *Violation {
	for _, s := range m.Mons {
		if w, ok := s.(Warmer); ok {
			if v := w.Light(x, clean); v != nil {
				return v
			}
		}
	}
	return nil
}
