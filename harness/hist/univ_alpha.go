package hist

import (
	"bytes"
	"fmt"
	"sort"
	"strings"

	art "github.com/Clement-Jean/go-art"
)

// AlphaSpec is the data of one byte-string universe.
type AlphaSpec struct {
	Name     string
	Setup    []string // inserted in this order before the closure starts
	SetupDel []string // then deleted (to reach shrunk size classes)
	Free     []string
	Probes   []string // absent keys: Search / Delete / bounds / prefixes
	Bounds   []string // extra Range bounds
	Prefixes []string // extra Prefix arguments
	NVals    int
	NoAutoP  bool // do not derive prefix arguments automatically
	Filler   []string
}

func rep(b byte, n int) string { return strings.Repeat(string([]byte{b}), n) }

type keyTable struct {
	keys  []string
	index map[string]int
}

func (t *keyTable) add(s string) int {
	if i, ok := t.index[s]; ok {
		return i
	}
	if t.index == nil {
		t.index = map[string]int{}
	}
	t.index[s] = len(t.keys)
	t.keys = append(t.keys, s)
	return len(t.keys) - 1
}

func exactBytes(s string) []byte {
	b := make([]byte, len(s))
	copy(b, s)
	return b
}

// buildAlphaLike assembles the key table and roles shared by the byte-string
// and collation universes.
func buildAlphaLike(sp AlphaSpec, autoPrefixes bool) (*Universe, *keyTable) {
	t := &keyTable{}
	u := &Universe{Name: sp.Name, NVals: sp.NVals}
	for _, s := range sp.Setup {
		u.Setup = append(u.Setup, Op{Kind: OpInsert, K: t.add(s), V: 1})
	}
	for _, s := range sp.SetupDel {
		u.Setup = append(u.Setup, Op{Kind: OpDelete, K: t.add(s)})
	}
	for _, s := range sp.Free {
		u.Free = append(u.Free, t.add(s))
	}
	for _, s := range sp.Probes {
		u.DelExtra = append(u.DelExtra, t.add(s))
	}
	for _, s := range sp.Filler {
		u.Filler = append(u.Filler, t.add(s))
	}
	// Search probes: every key that can be stored plus the absent probes.
	nStorable := len(t.keys)
	for i := 0; i < nStorable; i++ {
		u.Probes = append(u.Probes, i)
	}
	// bounds
	bset := map[int]bool{}
	addB := func(i int) {
		if !bset[i] {
			bset[i] = true
			u.Bounds = append(u.Bounds, i)
		}
	}
	for _, k := range u.Free {
		addB(k)
	}
	for _, k := range u.DelExtra {
		addB(k)
	}
	for _, s := range sp.Bounds {
		addB(t.add(s))
	}
	// a few setup keys as bounds (first, middle, last)
	if n := len(sp.Setup); n > 0 {
		addB(t.add(sp.Setup[0]))
		addB(t.add(sp.Setup[n/2]))
		addB(t.add(sp.Setup[n-1]))
	}
	// prefixes
	pset := map[int]bool{}
	addP := func(s string) {
		i := t.add(s)
		if !pset[i] {
			pset[i] = true
			u.Prefixes = append(u.Prefixes, i)
		}
	}
	addP("")
	for _, s := range sp.Prefixes {
		addP(s)
	}
	if autoPrefixes && !sp.NoAutoP {
		base := append(append([]string{}, sp.Free...), sp.Probes...)
		if n := len(sp.Setup); n > 0 {
			base = append(base, sp.Setup[0], sp.Setup[n-1])
		}
		for _, s := range base {
			addP(s)
			for _, cut := range []int{1, 9, 10, 11, 12, len(s) - 1} {
				if cut > 0 && cut < len(s) {
					addP(s[:cut])
				}
			}
			addP(s + "a")
			addP(s + "\x00") // the terminator byte is not part of the key: nothing starts with key+00 (unless stored as such)
		}
	}
	return u, t
}

func alphaFinish(u *Universe, t *keyTable) {
	u.NKeys = len(t.keys)
	u.KeyStr = make([]string, u.NKeys)
	u.Class = make([]int, u.NKeys)
	u.Rank = make([]int, u.NKeys)
	u.OrigBytes = make([][]byte, u.NKeys)
	idx := make([]int, u.NKeys)
	for i, s := range t.keys {
		u.KeyStr[i] = fmt.Sprintf("%q", s)
		if len(s) > 160 {
			u.KeyStr[i] = fmt.Sprintf("%q…%q(%d bytes)", s[:24], s[len(s)-8:], len(s))
		}
		u.Class[i] = i
		u.OrigBytes[i] = []byte(s)
		idx[i] = i
	}
	sort.Slice(idx, func(a, b int) bool { return bytes.Compare(u.OrigBytes[idx[a]], u.OrigBytes[idx[b]]) < 0 })
	for r, i := range idx {
		u.Rank[i] = r
	}
}

// NewAlphaUniverse builds a byte-string universe; keyType is "string" or "[]byte".
func NewAlphaUniverse(sp AlphaSpec, keyType string) *Universe {
	return NewAlphaUniverseD(sp, keyType, nil, nil)
}

// NewAlphaUniverseD: driver factories for other value types (nil: int-valued trees).
func NewAlphaUniverseD(sp AlphaSpec, keyType string, mkS func(*KeySpec[string], map[string]int) Driver, mkB func(*KeySpec[[]byte], map[string]int) Driver) *Universe {
	u, t := buildAlphaLike(sp, true)
	u.Kind = "alpha"
	u.KeyType = keyType
	u.Name = "alpha[" + keyType + "]/" + sp.Name
	alphaFinish(u, t)
	u.HasPrefix = true
	u.HasRange = true
	u.EmptyEndMax = true
	keys := t.keys
	u.PrefixRelated = func(i, j int) bool {
		a, b := keys[i]+"\x00", keys[j]+"\x00"
		return a != b && (strings.HasPrefix(a, b) || strings.HasPrefix(b, a))
	}
	u.TKey = func(k int) []byte { return []byte(keys[k] + "\x00") }
	switch keyType {
	case "string":
		spec := &KeySpec[string]{Keys: keys, Ident: func(s string) string { return s }, Str: func(s string) string { return fmt.Sprintf("%q", s) }}
		index, _ := BuildIndex(spec)
		u.New = func() Driver { return NewDriver[string](art.NewAlphaSortedTree[string, int](), spec, index) }
		if mkS != nil {
			spec.Fresh = func(s string) string { return strings.Clone(s) } // heap object referenced by nobody else
			u.New = func() Driver { return mkS(spec, index) }
		}
	case "[]byte":
		bk := make([][]byte, len(keys))
		for i, s := range keys {
			bk[i] = exactBytes(s)
		}
		spec := &KeySpec[[]byte]{Keys: bk, Ident: func(b []byte) string { return string(b) },
			Fresh: func(b []byte) []byte { return exactBytes(string(b)) },
			Str:   func(b []byte) string { return fmt.Sprintf("%q", b) }}
		index, _ := BuildIndex(spec)
		u.New = func() Driver { return NewDriver[[]byte](art.NewAlphaSortedTree[[]byte, int](), spec, index) }
		if mkB != nil {
			u.New = func() Driver { return mkB(spec, index) }
		}
	default:
		panic("bad key type " + keyType)
	}
	return u.Finish()
}

// ---- the universe families of DESIGN.md §5/C01 (byte-string shapes) ----

func bytesOf(bs ...byte) []string {
	out := make([]string, len(bs))
	for i, b := range bs {
		out[i] = string([]byte{b})
	}
	return out
}

func withPrefix(p string, ss []string) []string {
	out := make([]string, len(ss))
	for i, s := range ss {
		out[i] = p + s
	}
	return out
}

// setupOrder returns 0..n-1 in one of three arrival orders.
func setupOrder(n, variant int) []int {
	out := make([]int, n)
	for i := range out {
		out[i] = i
	}
	switch variant % 3 {
	case 1:
		for i, j := 0, n-1; i < j; i, j = i+1, j-1 {
			out[i], out[j] = out[j], out[i]
		}
	case 2:
		// bit-reversed order of 8-bit indexes
		sort.Slice(out, func(a, b int) bool { return rev8(out[a]) < rev8(out[b]) })
	}
	return out
}

func rev8(x int) int {
	r := 0
	for i := 0; i < 8; i++ {
		if x&(1<<i) != 0 {
			r |= 1 << (7 - i)
		}
	}
	return r
}

// spreadBytes returns n distinct byte values spread over 0..255 that include
// the boundary values 00 01 7f 80 ff where n allows, skipping those in avoid.
func spreadBytes(n int, avoid map[byte]bool) []byte {
	var out []byte
	seen := map[byte]bool{}
	add := func(b byte) {
		if len(out) < n && !seen[b] && !avoid[b] {
			seen[b] = true
			out = append(out, b)
		}
	}
	for _, b := range []byte{0x00, 0x01, 0x7f, 0x80, 0xff, 0xfe, 0x41} {
		add(b)
	}
	for i := 0; len(out) < n && i < 256; i++ {
		add(byte(rev8(i)))
	}
	sort.Slice(out, func(a, b int) bool { return out[a] < out[b] })
	return out
}

// FanSpec describes a fan-out window: a node holding `hold` children (reached
// by inserting hold+extra siblings and deleting extra of them), with free
// present/absent siblings around it.
type FanSpec struct {
	Name    string
	Path    string // compressed path above the node
	Hold    int    // children parked in the node by the setup
	Extra   int    // inserted then deleted again (reaches the shrunk class)
	Present int    // free keys among the parked children
	Absent  int    // free keys not present after setup
	Order   int    // arrival order variant
	Inner   bool   // make two of the children inner nodes
	Tail    string // suffix after the branch byte
	Fill    int    // number of filler siblings for the C12 epilogue
	Stem    bool   // the path itself is a key too (its terminator becomes the 0x00 child of the big node)
}

func FanUniverse(fs FanSpec) AlphaSpec {
	total := fs.Hold + fs.Extra
	var avoid map[byte]bool
	if fs.Stem {
		// path+"\x00" next to the stored stem key is the known finding D9 (terminator scheme): keep it out
		avoid = map[byte]bool{0x00: true}
	}
	all := spreadBytes(total+fs.Absent, avoid)
	// absent ones: spread evenly among the others, to include boundary bytes
	var setup, extra, absent []byte
	for i, b := range all {
		switch {
		case len(absent) < fs.Absent && (i%((len(all)/max(1, fs.Absent))+1) == 1):
			absent = append(absent, b)
		default:
			setup = append(setup, b)
		}
	}
	for len(absent) < fs.Absent {
		absent = append(absent, setup[len(setup)-1])
		setup = setup[:len(setup)-1]
	}
	for len(setup) > total {
		setup = setup[:len(setup)-1]
	}
	// the keys deleted again by the setup: every third from the middle
	if fs.Extra > 0 {
		keep := setup[:0:0]
		step := len(setup) / fs.Extra
		for i, b := range setup {
			if len(extra) < fs.Extra && i%step == step/2 {
				extra = append(extra, b)
			} else {
				keep = append(keep, b)
			}
		}
		for len(extra) < fs.Extra {
			extra = append(extra, keep[len(keep)-1])
			keep = keep[:len(keep)-1]
		}
		setup = keep
	}
	mk := func(b byte) string { return fs.Path + string([]byte{b}) + fs.Tail }
	sp := AlphaSpec{Name: fs.Name}
	ord := setupOrder(len(setup)+len(extra), fs.Order)
	merged := append(append([]byte{}, setup...), extra...)
	sort.Slice(merged, func(a, b int) bool { return merged[a] < merged[b] })
	for _, i := range ord {
		sp.Setup = append(sp.Setup, mk(merged[i]))
	}
	if fs.Inner && len(setup) >= 2 {
		// two children become inner nodes: add a second key below them
		sp.Setup = append(sp.Setup, mk(setup[0])+"x", mk(setup[len(setup)-1])+"y")
	}
	for _, b := range extra {
		sp.SetupDel = append(sp.SetupDel, mk(b))
	}
	// free present keys: first, last and middle ones of the parked children
	pres := []byte{}
	cand := []int{0, len(setup) - 1, len(setup) / 2, 1, len(setup) - 2, len(setup) / 3}
	for _, c := range cand {
		if len(pres) < fs.Present && c >= 0 && c < len(setup) {
			dup := false
			for _, p := range pres {
				if p == setup[c] {
					dup = true
				}
			}
			if !dup {
				pres = append(pres, setup[c])
			}
		}
	}
	for _, b := range pres {
		sp.Free = append(sp.Free, mk(b))
	}
	for _, b := range absent {
		sp.Free = append(sp.Free, mk(b))
	}
	// probes: a sibling byte never stored, the bare path, the path cut short
	never := spreadBytes(total+fs.Absent+2, avoid)
	for _, b := range never {
		used := false
		for _, m := range all {
			if m == b {
				used = true
			}
		}
		if !used {
			sp.Probes = append(sp.Probes, mk(b))
			break
		}
	}
	if fs.Path != "" {
		sp.Probes = append(sp.Probes, fs.Path, fs.Path[:len(fs.Path)-1])
		if len(fs.Path) > 10 {
			sp.Probes = append(sp.Probes, fs.Path[:10]) // ends right behind the inline bytes of the path
		}
	}
	if len(fs.Path) > 11 {
		// keys that agree with the ten inline path bytes and diverge in the part of the path that is
		// not stored in the node (only recoverable through a leaf)
		sp.Free = append(sp.Free, fs.Path[:10]+"#"+fs.Path[11:]+"d", fs.Path[:len(fs.Path)-1]+"#")
	}
	if fs.Stem && fs.Path != "" {
		// the stem key is free: present in some states, absent in others
		sp.Free = append(sp.Free, fs.Path)
		var pr []string
		for _, p := range sp.Probes {
			if p != fs.Path {
				pr = append(pr, p)
			}
		}
		sp.Probes = pr
	}
	if fs.Fill > 0 {
		fb := spreadBytes(fs.Fill, nil)
		// arrival order of the filler: bit-reversed (neither ascending nor descending)
		sort.Slice(fb, func(a, b int) bool { return rev8(int(fb[a])) < rev8(int(fb[b])) })
		for _, b := range fb {
			sp.Filler = append(sp.Filler, mk(b))
		}
	}
	return sp
}

// AlphaFamilies returns the byte-string universes for a tier.
func AlphaFamilies(tier string) []AlphaSpec {
	P := func(n int) string { return rep('p', n) }
	Q := func(n int) string { return rep('q', n) }
	var out []AlphaSpec
	if tier == "thorough" {
		out = append(out, AlphaSpec{
			Name:   "SHORT",
			Free:   []string{"", "a", "b", "ab", "abc", "abd", "b\xff", "\x80", "\xff\xff", "\x01"},
			Probes: []string{"c", "abe", "\xff", "a\x01"},
		})
	} else {
		// quick tier: the same ten keys as two overlapping 8-key closures
		out = append(out, AlphaSpec{
			Name:   "SHORT-A",
			Free:   []string{"", "a", "b", "ab", "abc", "abd", "b\xff", "\x80"},
			Probes: []string{"c", "abe", "\xff", "a\x01"},
			Bounds: []string{"ab\x00", "a\x00", "\x00"}, // bounds that are a stored key plus the byte the tree appends itself
		}, AlphaSpec{
			Name:   "SHORT-B",
			Free:   []string{"", "ab", "abc", "\xff\xff", "\x01", "\x80", "b\xff", "a"},
			Probes: []string{"\xff", "\x01\x01", "abd"},
		})
	}
	out = append(out, AlphaSpec{
		Name:   "LONGPATH",
		Free:   []string{P(12) + "x", P(12) + "y", P(11) + "z", P(5) + "q", P(10) + "m", P(9) + "n", P(12) + "x" + Q(11) + "1", P(12) + "x" + Q(11) + "2"},
		Probes: []string{P(12), P(8), P(12) + "z", P(11) + "bx", P(12) + "x" + Q(5), P(13), P(12) + "x" + Q(11), P(12) + "x" + Q(11) + "3", P(10), P(11)},
		NVals:  1,
	})
	out = append(out, AlphaSpec{
		Name:     "SIBLING", // prefix argument that continues like a sibling's subtree (D5 shape)
		Free:     []string{P(10) + "bab1", P(10) + "bab2", P(10) + "aab1", P(10) + "aab2", P(10) + "cab1", "z"},
		Probes:   []string{P(10) + "xab1", P(10) + "ba", P(10)},
		Bounds:   []string{P(10) + "bab1\x00", "z\x00"},
		Prefixes: []string{P(10) + "bab", P(10) + "aab", P(10) + "b", P(10) + "x", P(10) + "xab", P(9), P(11)},
	})
	out = append(out, AlphaSpec{
		Name:   "NULFREE", // 0x00 inside keys, none of them prefix-related
		Free:   []string{"a\x00b", "a\x00c", "b", "a\x01", "\x00\x00x", "\x00\x01"},
		Probes: []string{"a\x00", "a", "\x00"},
	})
	out = append(out, AlphaSpec{
		Name:  "VALS", // two values: overwrites are transitions of their own
		Free:  []string{"", "k", "ka", "kb", P(11) + "1", P(11) + "2"},
		NVals: 2,
	})
	// compressed paths of 256 bytes and more whose length modulo 256 lies below the inline limit (a path length narrowed to
	// a byte looks like a short path there): as a leaf split, below a merge into an inner child, and at 512+
	for _, n := range []int{256, 261, 513} {
		out = append(out, AlphaSpec{
			Name:     fmt.Sprintf("PATH%d", n),
			Free:     []string{P(n) + "ax1", P(n) + "ax2", P(n) + "b", P(n) + "ay", "q"},
			Probes:   []string{P(n), P(n) + "a", P(n-1) + "zax1", P(9) + "z" + P(n-10) + "ax1"},
			Prefixes: []string{P(n), P(n) + "a", P(n - 1), P(n + 1)}, NoAutoP: true,
		})
	}
	out = append(out, AlphaSpec{
		Name:   "NULTAIL", // keys whose own last bytes are 0x00 (none of them a prefix of another: not the D9 shape)
		Free:   []string{"a\x00", "b\x00\x00", "\x00", "c", "a\x01", "\x7f\x00"},
		Probes: []string{"a", "b\x00", "b", "\x00\x00"}, NoAutoP: true,
		Prefixes: []string{"a", "a\x00", "b\x00", "\x00"},
	})
	out = append(out, AlphaSpec{
		Name:   "HUGE", // key lengths around and beyond 64 KiB (a length kept in 16 bits wraps here); overwrites are transitions
		Free:   []string{rep('h', 65534), rep('h', 65535), rep('h', 70000)},
		Probes: []string{rep('h', 65533), rep('h', 65536)}, NoAutoP: true, NVals: 2,
	})
	out = append(out, AlphaSpec{
		Name:   "DEEP3", // three stacked long paths, keys of very different lengths, leaf and inner children mixed
		Free:   []string{P(12) + "a" + Q(12) + "b" + P(11) + "1", P(12) + "a" + Q(12) + "b" + P(11) + "2", P(12) + "a" + Q(12) + "c", P(12) + "a" + Q(3), P(12) + "b", P(3), "x"},
		Probes: []string{P(12) + "a" + Q(12) + "b", P(12) + "a" + Q(12), P(12) + "a" + Q(12) + "b" + P(11) + "3", P(12) + "a" + Q(11) + "x" + "b" + P(11) + "1"},
	})
	if tier == "thorough" {
		out = append(out, AlphaSpec{
			Name:   "LONG12", // twelve keys mixing short keys, paths around the inline limit and branch bytes >= 0x80
			Free:   []string{"", "a", "ab", P(9) + "n", P(10) + "m", P(11) + "z", P(12) + "x", P(12) + "y", P(12) + "\x80", P(12) + "x" + Q(11) + "1", P(12) + "x" + Q(11) + "\xff", "\xff"},
			Probes: []string{P(12), P(13), P(12) + "x" + Q(5)},
		})
	}
	out = append(out, AlphaSpec{
		Name:     "SELFSIM", // self-similar keys: a descent restarted from an inner node would match again
		Free:     []string{"aa1", "aa2", "aaa1", "aaa2", "b", "aaaa1", "a"},
		Probes:   []string{"aa", "aaa"},
		Prefixes: []string{"aa", "aaa", "a", "aaaa"},
	})
	// key lengths around powers of two (scratch-buffer / fast-path thresholds), as separate leaves and under one long shared path
	out = append(out, LengthSpecs()...)
	// fan-out windows
	fans := []FanSpec{
		{Name: "FAN0-8", Hold: 0, Present: 0, Absent: 8},
		{Name: "FAN16@15", Hold: 15, Present: 3, Absent: 3},
		{Name: "FAN48@14", Hold: 14, Extra: 3, Present: 3, Absent: 3},
		{Name: "FAN48@46", Hold: 46, Present: 2, Absent: 4},
		{Name: "FAN256@39", Hold: 39, Extra: 10, Present: 4, Absent: 2},
	}
	for _, f := range fans {
		for _, path := range []string{"", "abc", P(12)} {
			g := f
			g.Path = path
			g.Name = fmt.Sprintf("%s/path%d", f.Name, len(path))
			g.Inner = path == "abc"
			if tier != "thorough" && path == "abc" && f.Hold > 16 {
				continue
			}
			out = append(out, FanUniverse(g))
		}
	}
	// nodes that were once completely full and then shrank by deletions all the way into the next smaller class (their dead
	// lanes and slots hold stale copies of the former largest entries); the closure then deletes further and inserts in between
	for _, f := range []FanSpec{
		{Name: "FAN16FULL@4", Hold: 4, Extra: 12, Present: 3, Absent: 3},
		{Name: "FAN48FULL@13", Hold: 13, Extra: 35, Present: 3, Absent: 3},
	} {
		out = append(out, FanUniverse(f))
		g := f
		g.Order = 1
		g.Name += "/ord1"
		out = append(out, FanUniverse(g))
	}
	// a stored key that is a proper prefix of all siblings: its terminator is the 0x00 child of the big node
	for _, f := range []FanSpec{
		{Name: "STEM16@15", Hold: 15, Present: 2, Absent: 2, Path: "stem", Stem: true},
		{Name: "STEM48@14", Hold: 14, Extra: 3, Present: 2, Absent: 2, Path: "stem", Stem: true},
		{Name: "STEM48@46", Hold: 46, Present: 2, Absent: 2, Path: P(12), Stem: true},
	} {
		if tier != "thorough" && f.Hold > 16 && f.Extra == 0 {
			continue
		}
		out = append(out, FanUniverse(f))
	}
	// nested big nodes: a node16 below a node48 below a node4, free keys on every level
	{
		var setup []string
		for i := 0; i < 18; i++ {
			setup = append(setup, "n"+string([]byte{byte(0x20 + i*7)}))
		}
		for i := 0; i < 6; i++ {
			setup = append(setup, "n"+string([]byte{0x20})+"m"+string([]byte{byte(0x30 + i*9)}))
		}
		out = append(out, AlphaSpec{Name: "NEST", Setup: setup,
			Free:   []string{"n" + string([]byte{0x20}) + "m" + string([]byte{0x30}), "n" + string([]byte{0x20}) + "m" + string([]byte{0xf0}), "n" + string([]byte{0x27}), "n" + string([]byte{0xfe}), "z", "n"},
			Probes: []string{"n" + string([]byte{0x20}) + "m", "n" + string([]byte{0x20})}})
	}
	if tier == "thorough" {
		for _, f := range fans {
			for ord := 1; ord <= 2; ord++ {
				g := f
				g.Order = ord
				g.Name = fmt.Sprintf("%s/ord%d", f.Name, ord)
				out = append(out, FanUniverse(g))
			}
		}
		// mid-range hysteresis windows
		for _, f := range []FanSpec{
			{Name: "FAN48@42", Hold: 42, Present: 3, Absent: 3},
			{Name: "FAN256@42", Hold: 42, Extra: 8, Present: 3, Absent: 3},
			{Name: "FAN16@8", Hold: 8, Present: 3, Absent: 3},
			{Name: "FAN4@3", Hold: 3, Present: 3, Absent: 4},
		} {
			out = append(out, FanUniverse(f))
		}
	}
	// BYTESWEEP: every byte value as a branch byte, next to its neighbours
	nSweep := 8
	if tier == "thorough" {
		nSweep = 32
	}
	for w := 0; w < nSweep; w++ {
		width := 256 / nSweep
		var bs []byte
		if tier == "thorough" {
			for i := 0; i < 8; i++ {
				bs = append(bs, byte(w*width+i))
			}
		} else {
			// 8 windows of 8 bytes taken around the interesting boundaries
			starts := []int{0x00, 0x3c, 0x7a, 0x7e, 0x80, 0xbc, 0xf8, 0x1f}
			for i := 0; i < 8; i++ {
				bs = append(bs, byte(starts[w]+i))
			}
		}
		path := ""
		if w%2 == 1 {
			path = "abc"
		}
		out = append(out, AlphaSpec{Name: fmt.Sprintf("BYTESWEEP%02d", w), Free: withPrefix(path, bytesOf(bs...)), NoAutoP: true,
			Probes: []string{path + string([]byte{bs[0] - 1})}})
	}
	return out
}

// NulSpec is the universe that contains the known finding D9.
func NulSpec() AlphaSpec {
	return AlphaSpec{Name: "NUL", Free: []string{"", "\x00", "a", "a\x00", "a\x00b", "a\x00c", "b"}}
}

// LengthSpecs: keys whose lengths straddle 16, 32, 64, 128, 256 and 1024 bytes.
func LengthSpecs() []AlphaSpec {
	var out []AlphaSpec
	for gi, lens := range [][]int{{15, 16, 17, 31, 32, 33}, {63, 64, 65, 127, 128, 129}, {255, 256, 257, 1023, 1024, 1025}} {
		var distinct, shared []string
		for i, n := range lens {
			distinct = append(distinct, string([]byte{byte('a' + i)})+rep('x', n-1))
			shared = append(shared, rep('s', n-1)+string([]byte{byte('A' + i)}))
		}
		out = append(out,
			AlphaSpec{Name: fmt.Sprintf("LEN%d-distinct", gi), Free: distinct, Probes: []string{"a" + rep('x', lens[0]), rep('x', lens[1])}, NoAutoP: true,
				Prefixes: []string{"a", distinct[1][:lens[1]-1], distinct[2]}},
			AlphaSpec{Name: fmt.Sprintf("LEN%d-shared", gi), Free: shared, Probes: []string{rep('s', lens[0]-1), rep('s', lens[5])}, NoAutoP: true,
				Prefixes: []string{rep('s', lens[0]-1), rep('s', lens[3]), shared[1]}})
	}
	return out
}
