package hist

import (
	"fmt"
	"sort"
	"strings"
	"unicode/utf8"

	art "github.com/Clement-Jean/go-art"
	"golang.org/x/text/collate"
	"golang.org/x/text/language"
)

// CollatorCfg names one collator configuration; New returns a fresh instance
// (collators carry scratch state, tree and oracle never share one).
type CollatorCfg struct {
	Name string
	New  func() *collate.Collator
}

func Collators() []CollatorCfg {
	mk := func(name string, tag language.Tag, opts ...collate.Option) CollatorCfg {
		return CollatorCfg{Name: name, New: func() *collate.Collator { return collate.New(tag, opts...) }}
	}
	return []CollatorCfg{
		mk("und", language.Und),
		mk("sv", language.Swedish),
		mk("de", language.German),
		mk("es", language.Spanish),
		mk("und-numeric", language.Und, collate.Numeric),
		mk("und-ignorecase", language.Und, collate.IgnoreCase),
		mk("und-ignorediacritics", language.Und, collate.IgnoreDiacritics),
		mk("und-loose", language.Und, collate.Loose),
	}
}

// CollSpec is the data of one collation universe.
type CollSpec struct {
	Name     string
	Setup    []string // inserted before the closure starts (never part of the alphabet)
	SetupDel []string // then deleted
	Free     []string
	Probes   []string
	Prefixes []string
	Prefix   bool // Prefix has the property's meaning for this universe (root collator, plain ASCII)
	NVals    int
}

// NewCollUniverse builds a collation universe. keyType: string | []byte | []rune.
// custom=false uses the tree's default collator (root locale), the only
// possibility for []rune keys.
func NewCollUniverse(sp CollSpec, cfg CollatorCfg, keyType string, custom bool) *Universe {
	return NewCollUniverseD(sp, cfg, keyType, custom, nil)
}

// NewCollUniverseD: string-keyed collation universe with a driver factory for other value types.
func NewCollUniverseD(sp CollSpec, cfg CollatorCfg, keyType string, custom bool, mkS func(*KeySpec[string], map[string]int) Driver) *Universe {
	oracle := cfg.New()
	// keep a subset the collator tells apart pairwise (the property's side condition)
	filter := func(in []string, kept *[]string) []string {
		var out []string
		for _, s := range in {
			ok := true
			for _, k := range *kept {
				if k == s || oracle.CompareString(k, s) == 0 {
					ok = false
					break
				}
			}
			if ok {
				*kept = append(*kept, s)
				out = append(out, s)
			}
		}
		return out
	}
	var kept []string
	as := AlphaSpec{Name: sp.Name, NVals: sp.NVals, NoAutoP: true}
	as.Free = filter(sp.Free, &kept)
	// setup keys may coincide with free keys (initially present ones) but not be collator-equal to a different key
	for _, s := range sp.Setup {
		ok := true
		for _, k := range kept {
			if k != s && oracle.CompareString(k, s) == 0 {
				ok = false
			}
		}
		if ok {
			as.Setup = append(as.Setup, s)
			dup := false
			for _, k := range kept {
				dup = dup || k == s
			}
			if !dup {
				kept = append(kept, s)
			}
		}
	}
	as.SetupDel = sp.SetupDel
	as.Probes = sp.Probes // never stored: may be collator-equal to a stored key (must then be reported absent)
	if sp.Prefix {
		as.Prefixes = sp.Prefixes
		as.NoAutoP = false
	}
	u, t := buildAlphaLike(as, sp.Prefix)
	// Prefix arguments must be text: cuts inside a multi-byte character are out of the property's scope
	var textual []int
	for _, p := range u.Prefixes {
		if utf8.ValidString(t.keys[p]) {
			textual = append(textual, p)
		}
	}
	u.Prefixes = textual
	u.Kind = "collation"
	u.KeyType = keyType
	u.Name = fmt.Sprintf("collation[%s,%s]/%s", keyType, cfg.Name, sp.Name)
	alphaFinish(u, t)
	// oracle rank by the second collator instance; keys it cannot tell apart
	// from a stored candidate were filtered out above. Prefix arguments and
	// other non-storable keys get ranks too (ties broken bytewise: they are never stored).
	idx := make([]int, u.NKeys)
	for i := range idx {
		idx[i] = i
	}
	sort.SliceStable(idx, func(a, b int) bool {
		c := oracle.CompareString(t.keys[idx[a]], t.keys[idx[b]])
		if c != 0 {
			return c < 0
		}
		return t.keys[idx[a]] < t.keys[idx[b]]
	})
	for r, i := range idx {
		u.Rank[i] = r
	}
	u.HasPrefix = sp.Prefix
	u.HasRange = false
	keys := t.keys
	u.LeafKey = nil
	u.TKey = nil
	u.LeafFromDump = true
	switch keyType {
	case "string":
		spec := &KeySpec[string]{Keys: keys, Ident: func(s string) string { return s }, Str: func(s string) string { return fmt.Sprintf("%q", s) }}
		index, _ := BuildIndex(spec)
		u.New = func() Driver {
			if custom {
				return NewDriver[string](art.NewCollationSortedTree[string, int](art.WithCollator[string, int](cfg.New())), spec, index)
			}
			return NewDriver[string](art.NewCollationSortedTree[string, int](), spec, index)
		}
		if mkS != nil {
			spec.Fresh = func(s string) string { return strings.Clone(s) }
			u.New = func() Driver { return mkS(spec, index) }
		}
	case "[]byte":
		bk := make([][]byte, len(keys))
		for i, s := range keys {
			bk[i] = exactBytes(s)
		}
		spec := &KeySpec[[]byte]{Keys: bk, Ident: func(b []byte) string { return string(b) },
			Fresh: func(b []byte) []byte { return exactBytes(string(b)) },
			Str:   func(b []byte) string { return fmt.Sprintf("%q", b) }}
		index, _ := BuildIndex(spec)
		u.New = func() Driver {
			if custom {
				return NewDriver[[]byte](art.NewCollationSortedTree[[]byte, int](art.WithCollator[[]byte, int](cfg.New())), spec, index)
			}
			return NewDriver[[]byte](art.NewCollationSortedTree[[]byte, int](), spec, index)
		}
	case "[]rune":
		rk := make([][]rune, len(keys))
		for i, s := range keys {
			rk[i] = []rune(s)
		}
		spec := &KeySpec[[]rune]{Keys: rk, Ident: func(r []rune) string { return string(r) },
			Fresh: func(r []rune) []rune { return append([]rune(nil), r...) },
			Str:   func(r []rune) string { return fmt.Sprintf("%q", string(r)) }}
		index, _ := BuildIndex(spec)
		u.New = func() Driver { return NewDriver[[]rune](art.NewCollationSortedTree[[]rune, int](), spec, index) }
	default:
		panic("bad key type " + keyType)
	}
	return u.Finish()
}

// collFan: n characters x {"1","2"} as setup; the closure works on keys under the first, a middle and a new character.
func collFan(name string, n int) CollSpec {
	var setup []string
	ch := func(i int) string { return string(rune(0x4E00 + i)) }
	for i := 0; i < n; i++ {
		setup = append(setup, ch(i)+"1", ch(i)+"2")
	}
	return CollSpec{Name: name, Setup: setup, SetupDel: []string{ch(0) + "2", ch(n/2) + "1"},
		Free:   []string{ch(0) + "1", ch(0) + "2", ch(n/2) + "1", ch(n) + "1", ch(n) + "2"},
		Probes: []string{ch(1) + "3", ch(n+1) + "1", ch(2)}}
}

func CollFamilies() []CollSpec {
	P16 := rep('p', 16)
	return []CollSpec{
		{Name: "CASEACC", Free: []string{"a", "A", "á", "ä", "ab", "aB", "Ab", "b"}, Probes: []string{"Á", "B", "aa"}},
		{Name: "WORDS", Free: []string{"abc", "résumé", "resume", "Resume", "z", "å", "ö", ""}, Probes: []string{"résume", "Z", "o", "re\u0301sume\u0301", "RESUME"}}, // incl. the NFD twin of a stored NFC string (equal sort key, different bytes)
		{Name: "DIGITS", Free: []string{"9", "10", "a9", "a10", "2", "a2", "a b", "a-b"}, Probes: []string{"a", "1", "ab"}},
		// stored keys that are NOT in NFC form (base letter + combining mark, singleton code points): they must come back as inserted
		{Name: "NFDKEYS", Free: []string{"cote\u0301", "ro\u0302le", "\u212b", "cote", "role", "A"}, Probes: []string{"cot\u00e9", "r\u00f4le", "\u00c5"}},
		{Name: "DIGITCASE", Free: []string{"track10", "Track10", "TRACK10", "track9", "Track9", "track010"}, Probes: []string{"track1", "TRACK9"}},
		// sort keys beyond 4 KiB (the inline size of collate.Buffer)
		{Name: "VERYLONG", Free: []string{rep('x', 900) + "a", rep('x', 900) + "A", rep('x', 900) + "b", rep('x', 1100) + "c", "short"}, Probes: []string{rep('x', 900)}},
		{Name: "CJKLONG", Free: []string{"日本", "日本語", P16 + "a", P16 + "A", P16 + "b", P16 + "ab", "日", "本"}, Probes: []string{P16, "語", P16 + "B"}},
		{Name: "VALS", Free: []string{"a", "A", "á", "ab", P16 + "x"}, NVals: 2},
		// strings without any primary weight (lone combining marks) next to the empty string: their sort keys differ from the
		// empty string's only behind its leading separators; probes that are completely ignorable (equal sort key to "")
		// every node class on the lookup path of the hand-written collation tree, with inner nodes below it:
		// 7, 20 and 52 characters with pairwise different primary weights (consecutive Han ideographs differ in the
		// last byte of a three-byte weight), each followed by two different digits
		collFan("CFAN16", 7), collFan("CFAN48", 20), collFan("CFAN256", 52),
		// ill-formed UTF-8 (Latin-1 bytes, stray 0xFF/0xFE, a truncated sequence): the collator weights each stray byte on its own,
		// differently from U+FFFD; string and byte-slice keys only (a rune slice cannot hold them)
		{Name: "ILLFORMED", Free: []string{"a\xffb", "a\ufffdb", "ab", "caf\xe9", "caf\u00e9", "a\xff\xfeb", "\xe6\x97"}, Probes: []string{"a\xfeb", "caf", "\xe6\x97\xa5"}},
		// characters outside the basic plane (four UTF-8 bytes each: emoji, CJK extension B, mathematical digits), alone and mixed
		{Name: "ASTRAL", Free: []string{"\U0001F600", "\u4f60\u597d\U0001F600", "\U00020000", "a\U0001F600", "\U0001D7D8\U0001D7D9", "\U0001F600\U0001F601"}, Probes: []string{"\U0001F601", "\U00020001", "a"}},
		{Name: "IGNORABLE", Free: []string{"", "\u0301", "\u0301\u0300", "a", "\u0300", "a\u0301"}, Probes: []string{"\u00ad", "a\u00ad", "\u0302", "\u0300\u0301"}},
	}
}

// CollPrefixFamilies: plain ASCII letters/digits under the root collator, where Prefix has the property's meaning.
func CollPrefixFamilies() []CollSpec {
	P16 := rep('p', 16)
	return []CollSpec{
		{Name: "PFX-ASCII", Prefix: true, Free: []string{"a", "ab", "abc", "abd", "b", "ba", "A", "Ab"}, Probes: []string{"ac", "c"},
			Prefixes: []string{"a", "ab", "abx", "A", "b", "c", "abc1"}},
		// three-byte primary weights (CJK), case / width variants with equal primary weights
		{Name: "PFX-CJK", Prefix: true, Free: []string{"a日", "A日", "a日本", "日", "㊐", "日本", "日本語", "一"}, Probes: []string{"本"},
			Prefixes: []string{"a日", "日", "日本", "a", "一", "㊐", "日本語x"}},
		{Name: "PFX-LONG", Prefix: true, Free: []string{P16 + "a", P16 + "ab", P16 + "b1", P16 + "b2", P16[:5] + "q", "z9", "z"}, Probes: []string{P16},
			Prefixes: []string{P16, P16[:5], P16[:10], P16[:11], P16 + "b", P16 + "c", "z", "zz", "p"}},
	}
}

// CollationRegistry lists collation universes for a property and tier.
func CollationRegistry(prop, tier string) []UniverseDef {
	var out []UniverseDef
	add := func(sp CollSpec, cfg CollatorCfg, kt string, custom bool) {
		name := fmt.Sprintf("collation[%s,%s]/%s", kt, cfg.Name, sp.Name)
		out = append(out, UniverseDef{Name: name, Build: func() *Universe { return NewCollUniverse(sp, cfg, kt, custom) }})
	}
	cols := Collators()
	und := cols[0]
	if prop == "C04" {
		for _, sp := range CollPrefixFamilies() {
			for _, kt := range []string{"string", "[]byte", "[]rune"} {
				add(sp, und, kt, false)
			}
		}
		// digit runs under the ROOT collator only: with the numeric option a digit run collates as one element (its length first),
		// which is a contraction in all but name and outside the property; the pinned tree misses "item10" for Prefix("item1") there
		digits := CollSpec{Name: "PFX-DIGITS", Prefix: true, Free: []string{"item1", "item10", "item100", "item2", "item", "itemA", "item01"}, Probes: []string{"item3"},
			Prefixes: []string{"item1", "item10", "item", "item2", "item0", "item3", "ite"}}
		add(digits, und, "string", false)
		// a language-tailored collator supplied at construction: precomposed letters with a primary weight of their own
		// (Swedish a-umlaut sorts after z); a Prefix whose search key were built by any other collator descends into the wrong subtree
		svp := CollSpec{Name: "PFX-SV", Prefix: true, Free: []string{"ära", "ärlig", "zebra", "apa", "är", "ara"}, Probes: []string{"ä", "z"},
			Prefixes: []string{"ä", "är", "a", "ar", "z", "ärl", "ö"}}
		add(svp, cols[1], "string", true)
		add(svp, cols[1], "[]byte", true)
		return out
	}
	if prop == "C14" || prop == "C15" {
		// Prefix sequences of collation trees take part in the sequence / read-only properties as well
		for _, sp := range CollPrefixFamilies() {
			add(sp, und, "string", false)
		}
	}
	fams := CollFamilies()
	for _, sp := range fams {
		for _, kt := range []string{"string", "[]byte", "[]rune"} {
			if kt == "[]rune" && sp.Name == "ILLFORMED" {
				continue
			}
			add(sp, und, kt, false)
		}
	}
	for _, cfg := range cols[1:] {
		for i, sp := range fams {
			if tier != "thorough" && prop != "C08" && i > 1 {
				continue
			}
			add(sp, cfg, "string", true)
			if tier == "thorough" || (prop == "C08" && i == 0) {
				add(sp, cfg, "[]byte", true)
			}
		}
	}
	if prop == "C08" {
		// byte-slice keys handed over in one reused buffer (scanner idiom): keys must come back as inserted
		for i, sp := range fams {
			if i > 1 && tier != "thorough" {
				continue
			}
			sp := sp
			for _, cfg := range []CollatorCfg{und, cols[4]} {
				cfg := cfg
				name := fmt.Sprintf("collation[[]byte,%s]/%s/buf-shared", cfg.Name, sp.Name)
				custom := cfg.Name != "und"
				out = append(out, UniverseDef{Name: name, Build: func() *Universe {
					base := NewCollUniverse(sp, cfg, "[]byte", custom)
					u := c13Universe(base, BufShared, func() art.Tree[[]byte, int] {
						if custom {
							return art.NewCollationSortedTree[[]byte, int](art.WithCollator[[]byte, int](cfg.New()))
						}
						return art.NewCollationSortedTree[[]byte, int]()
					})
					u.Name = name
					return u
				}})
			}
		}
	}
	if prop == "C08" || tier == "thorough" {
		for _, sp := range CollPrefixFamilies() {
			sp.Prefix = false
			sp.Prefixes = nil
			add(sp, und, "string", false)
		}
	}
	return out
}
