// vinstrument rewrites the non-test files of package art in the CURRENT working
// tree of the repository into a scratch directory, inserting a scheduling
// point `vsched.P()` before every statement of every function and function
// literal, and (unless -keep-sync) mapping the "sync" import to the
// scheduler-aware shims of the virtual package .../go-art/vsched. It writes an
// overlay file for `go build -overlay`; the repository itself is never touched.
package main

import (
	"encoding/json"
	"flag"
	"fmt"
	"go/ast"
	"go/parser"
	"go/token"
	"os"
	"path/filepath"
	"sort"
	"strings"
)

const vschedPath = "github.com/Clement-Jean/go-art/vsched"

func main() {
	repo := flag.String("repo", "/repo", "")
	out := flag.String("out", "", "scratch directory")
	src := flag.String("vsched", "", "directory holding the sources of the virtual package vsched")
	keepSync := flag.Bool("keep-sync", false, "keep the real sync package (free-running race pass)")
	flag.Parse()
	if *out == "" || *src == "" {
		fmt.Fprintln(os.Stderr, "usage: vinstrument -repo DIR -out DIR -vsched DIR [-keep-sync]")
		os.Exit(2)
	}
	os.MkdirAll(*out, 0o755)
	overlay := map[string]string{}
	entries, err := os.ReadDir(*repo)
	if err != nil {
		fatal(err)
	}
	sites := 0
	for _, e := range entries {
		name := e.Name()
		if e.IsDir() || !strings.HasSuffix(name, ".go") || strings.HasSuffix(name, "_test.go") || name == "verif_hooks.go" || name == "gen.go" {
			continue
		}
		path := filepath.Join(*repo, name)
		b, err := os.ReadFile(path)
		if err != nil {
			fatal(err)
		}
		nb, n, err := instrument(name, b, *keepSync)
		if err != nil {
			fatal(fmt.Errorf("%s: %w", name, err))
		}
		sites += n
		dst := filepath.Join(*out, name)
		if err := os.WriteFile(dst, nb, 0o644); err != nil {
			fatal(err)
		}
		overlay[path] = dst
	}
	vs, err := os.ReadDir(*src)
	if err != nil {
		fatal(err)
	}
	for _, e := range vs {
		if strings.HasSuffix(e.Name(), ".go") {
			overlay[filepath.Join(*repo, "vsched", e.Name())] = filepath.Join(*src, e.Name())
		}
	}
	ob, _ := json.MarshalIndent(map[string]any{"Replace": overlay}, "", " ")
	if err := os.WriteFile(filepath.Join(*out, "overlay.json"), ob, 0o644); err != nil {
		fatal(err)
	}
	fmt.Printf("vinstrument: %d scheduling points in %d files\n", sites, len(overlay)-len(vs))
}

func fatal(err error) {
	fmt.Fprintln(os.Stderr, "vinstrument:", err)
	os.Exit(2)
}

type insertion struct {
	off  int
	text string
}

func instrument(name string, src []byte, keepSync bool) ([]byte, int, error) {
	fset := token.NewFileSet()
	f, err := parser.ParseFile(fset, name, src, parser.ParseComments)
	if err != nil {
		return nil, 0, err
	}
	if f.Name.Name != "art" {
		return src, 0, nil
	}
	var ins []insertion
	off := func(p token.Pos) int { return fset.Position(p).Offset }
	addList := func(list []ast.Stmt) {
		for _, s := range list {
			switch s.(type) {
			case *ast.CaseClause, *ast.CommClause:
				continue
			}
			ins = append(ins, insertion{off(s.Pos()), "vsched.P(); "})
		}
	}
	ast.Inspect(f, func(n ast.Node) bool {
		switch x := n.(type) {
		case *ast.BlockStmt:
			addList(x.List)
		case *ast.CaseClause:
			addList(x.Body)
		case *ast.CommClause:
			addList(x.Body)
		}
		return true
	})
	// only statements inside function bodies count: BlockStmt/CaseClause only occur there
	sites := len(ins)
	// imports: add vsched right after the package clause; optionally alias sync to it
	pkgEnd := off(f.Name.End())
	ins = append(ins, insertion{pkgEnd, "\nimport vsched \"" + vschedPath + "\"\n"})
	if !keepSync {
		for _, imp := range f.Imports {
			if imp.Path.Value == `"sync"` {
				start, end := off(imp.Pos()), off(imp.End())
				// replace the whole import spec by an aliased import of the shim package
				ins = append(ins, insertion{start, "sync \"" + vschedPath + "\" /*"}, insertion{end, "*/"})
			}
		}
	}
	sort.SliceStable(ins, func(a, b int) bool { return ins[a].off > ins[b].off })
	out := append([]byte(nil), src...)
	for _, in := range ins {
		out = append(out[:in.off], append([]byte(in.text), out[in.off:]...)...)
	}
	out = append(out, []byte("\nvar _ = vsched.P\n")...)
	return out, sites, nil
}
