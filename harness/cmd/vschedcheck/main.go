//go:build vsched

// vschedcheck: jobs of engine E4 (built only with the instrumentation overlay).
package main

import (
	"encoding/json"
	"flag"
	"fmt"
	"os"
	"runtime"
	"runtime/debug"
	"strings"
	"time"

	"verif/hist"
	"verif/scen"
	"verif/sched"
)

func find(list []*scen.Scenario, name string) *scen.Scenario {
	for _, s := range list {
		if s.Name == name {
			return s
		}
	}
	return nil
}

func main() {
	fs := flag.NewFlagSet("job", flag.ExitOnError)
	prop := fs.String("prop", "C16", "")
	tier := fs.String("tier", "quick", "")
	name := fs.String("universe", "", "scenario")
	out := fs.String("out", "", "")
	bound := fs.Int("bound", 2, "preemption bound / number of GC events")
	shard := fs.Int("shard", 0, "")
	shards := fs.Int("shards", 1, "")
	deadline := fs.Duration("deadline", 0, "")
	choices := fs.String("choices", "", "replay: comma separated choice list / GC positions")
	if len(os.Args) < 2 {
		os.Exit(2)
	}
	fs.Parse(os.Args[2:])
	runtime.GOMAXPROCS(2)
	start := time.Now()
	res := &hist.Result{Universe: *name, Property: *prop}
	st := &res.Stats
	st.Exhaustive = true
	var dl time.Time
	if *deadline > 0 {
		dl = start.Add(*deadline)
	}
	var sc *scen.Scenario
	gcMode := strings.HasPrefix(*name, "gc/")
	if gcMode {
		sc = find(scen.GCScenarios(*tier), *name)
		debug.SetGCPercent(1)
	} else {
		sc = find(append(scen.Scenarios("thorough"), scen.Scenarios("quick")...), *name)
	}
	if sc == nil {
		fmt.Fprintln(os.Stderr, "no scenario", *name)
		os.Exit(2)
	}
	var v *hist.Violation
	var c []int
	var err error
	switch os.Args[1] {
	case "job":
		if gcMode {
			v, c, err = sched.ExploreGC(sc, *bound, *shard, *shards, dl, st)
		} else {
			x := &sched.Explorer{Sc: sc, Bound: *bound, Shard: *shard, Shards: *shards, Deadline: dl, Stats: st}
			v, c, err = x.Explore()
			if x.Capped() {
				st.Exhaustive = false
				st.CapHit = "deadline " + deadline.String()
			}
		}
	case "replay":
		var cl []int
		for _, s := range strings.Split(*choices, ",") {
			if s != "" {
				var n int
				fmt.Sscan(s, &n)
				cl = append(cl, n)
			}
		}
		v, err = sched.Replay(sc, cl, gcMode)
	}
	if err != nil {
		res.HarnessErr = err.Error()
	}
	if v != nil {
		if len(v.Tags) > 0 && v.Tags[0] == "harness" {
			res.HarnessErr = v.Observed
		} else {
			v.Property, v.Universe, v.Tier = *prop, *name, *tier
			v.PathStr = sc.Desc
			v.Tags = append(v.Tags, "choices="+strings.Trim(strings.Join(strings.Fields(fmt.Sprint(c)), ","), "[]"), fmt.Sprintf("bound=%d", *bound))
			res.Violations = append(res.Violations, v)
			st.Exhaustive = false
		}
	}
	st.States = len(st.Outcomes)
	st.Transitions = st.Evaluations
	st.Samples = append(st.Samples, fmt.Sprintf("%s: %s; shard %d/%d, bound %d, %d executions, %d distinct outcomes", sc.Name, sc.Desc, *shard, *shards, *bound, st.Evaluations, len(st.Outcomes)))
	st.WallS = time.Since(start).Seconds()
	if os.Args[1] == "replay" {
		if v == nil && err == nil {
			fmt.Println("NOT REPRODUCED: every goroutine observes its sequential results under this schedule now")
			os.Exit(0)
		}
		if err != nil {
			fmt.Fprintln(os.Stderr, "replay error:", err)
			os.Exit(2)
		}
		fmt.Printf("REPRODUCED %s: %s\n  expected: %s\n  observed: %s\n", *prop, v.What, v.Expected, v.Observed)
		os.Exit(1)
	}
	b, _ := json.MarshalIndent(res, "", " ")
	if *out != "" {
		os.WriteFile(*out, b, 0o644)
	} else {
		os.Stdout.Write(b)
	}
	if res.HarnessErr != "" {
		fmt.Fprintln(os.Stderr, "HARNESS ERROR:", res.HarnessErr)
		os.Exit(2)
	}
	if len(res.Violations) > 0 {
		os.Exit(1)
	}
}
