package main

import (
	"fmt"
	"os"
	"strings"

	"verif/scen"
)

func init() {
	props["C16"] = &propInfo{Level: "model_checking",
		Rule: "stateless exploration of goroutine schedules at statement granularity on an overlay-instrumented build of the working tree (a scheduling point before every statement of the library, sync.Pool replaced by a linearizable model): ALL schedules with at most 2 preemptions (thorough: 3 goroutines with 2, 2 goroutines with 3) of 2-3 goroutines working on private trees with pool traffic or querying one shared quiescent tree; oracle: every goroutine's observations equal its sequential execution, final trees well-formed with their own content, shared tree untouched, no panic; first 100 schedules and every violating one are replayed for determinism. states = distinct observed outcome classes, transitions = schedules executed, non-trivial = schedules with at least one preemption or non-default exit choice. A separate free-running -race pass (sampling, real sync.Pool) covers the accesses a cooperative scheduler cannot see",
		Assume: []string{"sequential consistency at statement granularity; intra-statement and weak-memory races are left to the free-running -race pass (reported under race_pass_free_running_executions, not part of the exhaustive claim)",
			"sync.Pool is modelled as a linearizable LIFO list inside the controlled scheduler"},
		Jobs: func(tier string, seed int) []JobDef {
			var out []JobDef
			bin := os.Getenv("VERIF_BIN_SCHED")
			shards := 4
			for _, sc := range scen.Scenarios(tier) {
				bound := 2
				shards = 4
				// the 48->256 grow loops over 256 slots (~1.5k points): bound 1 in the quick tier, 2 in thorough
				if sc.Name == "private-2/n48up-n48up-prefilled" || sc.Name == "private-2/n256down-n48up" || strings.HasPrefix(sc.Name, "readers-2/uint8-wide") || sc.Name == "private-2/collation-collation" || strings.HasPrefix(sc.Name, "readers-2/alpha-every-query") {
					if tier == "thorough" {
						shards = 16
					} else {
						bound = 1
						shards = 1
					}
				}
				// a complete traversal of a 200-child node is thousands of points: one preemption in both tiers
				// (two would be ~10^7 schedules of ~10^3..10^4 steps each); what this scenario is for is the -race pass
				if sc.Name == "readers-2/uint8-wide-iterate" {
					bound, shards = 1, 1
					if tier == "thorough" {
						shards = 4
					}
				}
				// bound 3 multiplies the schedule count by ~n/3: only the two smallest scenarios get it
				if tier == "thorough" && (sc.Name == "private-2/n4up-n4up" || sc.Name == "readers-2/alpha") {
					bound = 3
					shards = 16
				}
				for s := 0; s < shards; s++ {
					out = append(out, JobDef{Name: fmt.Sprintf("%s#%d/%d", sc.Name, s, shards), Bin: bin, CrashIsViolation: false,
						Args: []string{"job", "-prop", "C16", "-tier", tier, "-universe", sc.Name, "-bound", fmt.Sprint(bound), "-shard", fmt.Sprint(s), "-shards", fmt.Sprint(shards)}})
				}
			}
			rounds := "100"
			if tier == "thorough" {
				rounds = "1500"
			}
			out = append(out, JobDef{Name: "race-pass", Bin: os.Getenv("VERIF_BIN_RACE"), Env: []string{"GORACE=halt_on_error=1"}, CrashIsViolation: true,
				Args: []string{"race", "-tier", tier, "-rounds", rounds}})
			return out
		}}
}
