package main

import (
	"fmt"
	"os"

	"verif/codec"
)

func init() {
	props["C07"] = &propInfo{Level: "exploration",
		Rule: "exhaustive enumeration of key values in the type's total order (generated from bit patterns, never from the encoder): all values of every <=32-bit type (quick tier: 8/16-bit complete, 32-bit in 16 boundary windows of 2^20), a stated hi16 x mid32 x lo16 lattice of order indexes with +-1 neighbours for 64-bit types, all float32 NaN payloads and a structured float64 NaN family; per value: fixed length, bit-exact round trip, strictly increasing encoding along the chain (implies injectivity and order isomorphism on the enumerated set). evaluations = values encoded+decoded; distinct_nontrivial = adjacent pairs compared (all values distinct by construction)",
		Assume: []string{"64-bit types are covered on the stated lattice only (2^64 values cannot be enumerated)", "amd64; uint/int use the 8-byte branch here, the 4-byte branch is covered by the GOARCH=386 variant"},
		Jobs: func(tier string, seed int) []JobDef {
			var out []JobDef
			for _, n := range codec.Jobs(tier) {
				out = append(out, JobDef{Name: n, Args: []string{"job", "-prop", "C07", "-tier", tier, "-universe", n}})
			}
			// GOARCH=386 build: the 4-byte branch of uint/int
			if bin := os.Getenv("VERIF_BIN_386"); bin != "" {
				for _, t := range []string{"uint", "int"} {
					if tier == "thorough" {
						for s := 0; s < 8; s++ {
							n := fmt.Sprintf("codec/%s/full/%d/8", t, s)
							out = append(out, JobDef{Name: n + "@386", Bin: bin, Args: []string{"job", "-prop", "C07", "-tier", tier, "-universe", n}})
						}
					} else {
						n := "codec/" + t + "/windows/0/1"
						out = append(out, JobDef{Name: n + "@386", Bin: bin, Args: []string{"job", "-prop", "C07", "-tier", tier, "-universe", n}})
					}
				}
			}
			return out
		}}
}
