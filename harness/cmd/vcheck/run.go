package main

import (
	"crypto/sha256"
	"encoding/json"
	"flag"
	"fmt"
	"os"
	"os/exec"
	"path/filepath"
	"runtime"
	"sort"
	"strconv"
	"strings"
	"sync"
	"time"

	"verif/hist"
)

// JobDef is one child process of a check.
type JobDef struct {
	Name string
	Args []string // arguments after the binary name
	Env  []string
	Bin  string // alternative binary (build variant); "" = this binary
	// CrashIsViolation: a runtime fatal error of the job (checkptr, bad pointer found by the
	// collector, segmentation fault) is a violation of the property, not a harness error.
	CrashIsViolation bool
}

type propInfo struct {
	Level      string
	Rule       string
	Assume     []string
	Jobs       func(tier string, seed int) []JobDef
	PostMerge  func(ev map[string]any)
	JobTimeout func(tier string) time.Duration
}

var props = map[string]*propInfo{}

func histJobs(prop string) func(tier string, seed int) []JobDef {
	return func(tier string, seed int) []JobDef {
		var out []JobDef
		for _, d := range hist.Registry(prop, tier) {
			out = append(out, JobDef{Name: d.Name, Args: []string{"job", "-prop", prop, "-tier", tier, "-universe", d.Name}})
		}
		// C02 also runs the node16 windows and the word-size dependent key types on the GOARCH=386 build
		if bin := os.Getenv("VERIF_BIN_386"); bin != "" && prop == "C02" {
			for _, d := range hist.Registry(prop, tier) {
				if strings.Contains(d.Name, "FAN16@15") || strings.Contains(d.Name, "FAN48@14") || strings.HasPrefix(d.Name, "unsigned[uint]/") || strings.HasPrefix(d.Name, "signed[int]/") {
					out = append(out, JobDef{Name: d.Name + "@386", Bin: bin, Args: []string{"job", "-prop", prop, "-tier", tier, "-universe", d.Name}})
				}
			}
		}
		return out
	}
}

func init() {
	e1Assume := []string{
		"amd64 Linux, Go toolchain pinned by /verif/env.sh; node16_arm64.s cannot be executed here",
		"exhaustive relative to the listed universes (key alphabets, setup histories); closure is to fixpoint on the dedup state key, whose erasures (dead inline path bytes, free node16 lanes, node48 slot numbers) are guarded by raw variants and the poison differential",
		"reference models (ideal map, oracle comparators) and the structural walker in verif_hooks.go are trusted",
	}
	for _, p := range []string{"C01", "C02", "C03", "C04", "C05", "C06", "C11", "C14", "C15", "C08", "C09", "C13"} {
		props[p] = &propInfo{Level: "model_checking", Assume: e1Assume, Jobs: histJobs(p),
			Rule: "explicit-state BFS to closure over Insert/Delete histories of real trees per universe; every new state gets the property's full query suite; a (state,query) evaluation is non-trivial when the reference answer is non-empty / the key is present; distinct because states are deduplicated by structural hash"}
	}
}

func cmdRun(args []string) {
	fs := flag.NewFlagSet("run", flag.ExitOnError)
	prop := fs.String("prop", "", "")
	tier := fs.String("tier", "quick", "")
	par := fs.Int("jobs", 0, "")
	only := fs.String("only", "", "substring filter on job names (debugging)")
	fs.Parse(args)
	info := props[*prop]
	if info == nil {
		fmt.Fprintln(os.Stderr, "unknown property", *prop)
		os.Exit(2)
	}
	seed, _ := strconv.Atoi(os.Getenv("VERIF_SEED"))
	verifDir := os.Getenv("VERIF_DIR")
	if verifDir == "" {
		verifDir = "/verif"
	}
	if *par == 0 {
		*par = runtime.NumCPU()
		if v, err := strconv.Atoi(os.Getenv("VERIF_JOBS")); err == nil && v > 0 {
			*par = v
		}
	}
	if err := hist.LoadFindings(knownPath()); err != nil && !os.IsNotExist(err) {
		fmt.Fprintln(os.Stderr, "known findings:", err)
		os.Exit(2)
	}
	start := time.Now()
	jobs := info.Jobs(*tier, seed)
	if *only != "" {
		var f []JobDef
		for _, j := range jobs {
			if strings.Contains(j.Name, *only) {
				f = append(f, j)
			}
		}
		jobs = f
	}
	// seed only rotates the order in which jobs are started
	if seed != 0 && len(jobs) > 1 {
		r := seed % len(jobs)
		if r < 0 {
			r += len(jobs)
		}
		jobs = append(jobs[r:], jobs[:r]...)
	}
	work, err := os.MkdirTemp(filepath.Join(verifDir, ".work"), "run-"+*prop+"-")
	if err != nil {
		fmt.Fprintln(os.Stderr, err)
		os.Exit(2)
	}
	defer os.RemoveAll(work)

	timeout := 10 * time.Minute
	if *tier == "thorough" {
		timeout = 60 * time.Minute
	}
	if info.JobTimeout != nil {
		timeout = info.JobTimeout(*tier)
	}
	self, _ := os.Executable()
	results := make([]*hist.Result, len(jobs))
	errs := make([]string, len(jobs))
	sem := make(chan struct{}, *par)
	var wg sync.WaitGroup
	for i, j := range jobs {
		wg.Add(1)
		go func(i int, j JobDef) {
			defer wg.Done()
			sem <- struct{}{}
			defer func() { <-sem }()
			out := filepath.Join(work, fmt.Sprintf("job%d.json", i))
			bin := self
			if j.Bin != "" {
				bin = j.Bin
			}
			// internal deadline a bit below the hard timeout: a capped job exits 0 with exhaustive:false
			a := append(append([]string{}, j.Args...), "-out", out, "-deadline", (timeout - timeout/10).String())
			cmd := exec.Command(bin, a...)
			cmd.Env = append(os.Environ(), j.Env...)
			var stderr strings.Builder
			cmd.Stderr = &stderr
			done := make(chan error, 1)
			if err := cmd.Start(); err != nil {
				errs[i] = err.Error()
				return
			}
			go func() { done <- cmd.Wait() }()
			select {
			case <-done:
			case <-time.After(timeout + time.Minute):
				cmd.Process.Kill()
				<-done
				errs[i] = "job killed after hard timeout"
			}
			b, rerr := os.ReadFile(out)
			if rerr != nil {
				se := stderr.String()
				if j.CrashIsViolation && errs[i] == "" && (strings.Contains(se, "DATA RACE") || strings.Contains(se, "fatal error") || strings.Contains(se, "checkptr") || strings.Contains(se, "SIGSEGV") || strings.Contains(se, "unexpected signal")) {
					results[i] = &hist.Result{Universe: j.Name, Property: *prop, Violations: []*hist.Violation{{Property: *prop, Universe: j.Name, Tier: *tier, Tags: []string{"crash"},
						What: "the job process died (runtime fatal error or race detector report) while exploring " + j.Name, Expected: "no runtime fatal error (pointer validity, memory fault) and no data race report", Observed: strings.TrimSpace(firstLines(se, 12))}}}
					return
				}
				if errs[i] == "" {
					errs[i] = "no report: " + strings.TrimSpace(lastLines(se, 15))
				}
				return
			}
			var r hist.Result
			if err := json.Unmarshal(b, &r); err != nil {
				errs[i] = "bad report: " + err.Error()
				return
			}
			results[i] = &r
			if r.HarnessErr != "" {
				errs[i] = r.HarnessErr
			}
		}(i, j)
	}
	wg.Wait()

	// ---- job-level confirmation of violations that did not recur in isolation ----
	for i, res := range results {
		if res == nil || res.Unconfirmed == nil {
			continue
		}
		out := filepath.Join(work, fmt.Sprintf("job%d-again.json", i))
		bin := self
		if jobs[i].Bin != "" {
			bin = jobs[i].Bin
		}
		a := append(append([]string{}, jobs[i].Args...), "-out", out, "-deadline", (timeout - timeout/10).String())
		cmd := exec.Command(bin, a...)
		cmd.Env = append(os.Environ(), jobs[i].Env...)
		cmd.Run()
		var again hist.Result
		if b, err := os.ReadFile(out); err == nil && json.Unmarshal(b, &again) == nil && again.Unconfirmed != nil &&
			again.Unconfirmed.What == res.Unconfirmed.What && again.Unconfirmed.PathStr == res.Unconfirmed.PathStr && again.Unconfirmed.Observed == res.Unconfirmed.Observed {
			v := res.Unconfirmed
			v.Tags = append(v.Tags, "job-replay")
			v.What = "[recurs at the same point whenever the whole job is re-run in a fresh process, but not when this history is executed on fresh trees in isolation: the outcome depends on what other trees did earlier in the process, i.e. on state shared between trees] " + v.What
			res.Violations = append(res.Violations, v)
			res.Unconfirmed = nil
			res.HarnessErr = ""
			errs[i] = ""
		}
	}

	// ---- merge ----
	type perJob struct {
		Name        string  `json:"job"`
		States      int     `json:"states"`
		Variants    int     `json:"raw_variants_expanded"`
		Unexpanded  int     `json:"raw_variants_seen_not_expanded"`
		Transitions int     `json:"transitions"`
		Evaluations int     `json:"evaluations"`
		Nontrivial  int     `json:"distinct_nontrivial"`
		MaxDepth    int     `json:"max_depth"`
		Exhaustive  bool    `json:"exhaustive"`
		CapHit      string  `json:"cap_hit,omitempty"`
		WallS       float64 `json:"wall_s"`
		Error       string  `json:"error,omitempty"`
	}
	var per []perJob
	tot := hist.Stats{Exhaustive: true, Outcomes: map[string]int{}}
	var samples []any
	var viols, known []*hist.Violation
	harnessErr := ""
	extra := map[string]float64{}
	for i, r := range results {
		pj := perJob{Name: jobs[i].Name, Error: errs[i]}
		if errs[i] != "" {
			harnessErr += jobs[i].Name + ": " + errs[i] + "\n"
			tot.Exhaustive = false
		}
		if r != nil {
			s := r.Stats
			pj.States, pj.Variants, pj.Unexpanded, pj.Transitions = s.States, s.Variants, s.Unexpanded, s.Transitions
			pj.Evaluations, pj.Nontrivial, pj.MaxDepth, pj.Exhaustive, pj.CapHit, pj.WallS = s.Evaluations, s.Nontrivial, s.MaxDepth, s.Exhaustive, s.CapHit, s.WallS
			tot.States += s.States
			tot.Variants += s.Variants
			tot.Unexpanded += s.Unexpanded
			tot.Transitions += s.Transitions
			tot.PoisonRuns += s.PoisonRuns
			tot.WarmRuns += s.WarmRuns
			tot.DrainSteps += s.DrainSteps
			tot.Evaluations += s.Evaluations
			tot.Nontrivial += s.Nontrivial
			tot.FaultySkipped += s.FaultySkipped
			tot.TaintedSkip += s.TaintedSkip
			if s.MaxDepth > tot.MaxDepth {
				tot.MaxDepth = s.MaxDepth
			}
			if !s.Exhaustive {
				tot.Exhaustive = false
			}
			for k, v := range s.Outcomes {
				tot.Outcomes[k] += v
			}
			for k, v := range s.Extra {
				if strings.HasPrefix(k, "max_") || strings.HasPrefix(k, "pump_") {
					if v > extra[k] {
						extra[k] = v
					}
				} else {
					extra[k] += v
				}
			}
			if len(s.Samples) > 0 && len(samples) < 40 {
				samples = append(samples, map[string]any{"job": jobs[i].Name, "histories": s.Samples})
			}
			viols = append(viols, r.Violations...)
			known = append(known, r.Known...)
		}
		per = append(per, pj)
	}
	sort.Slice(per, func(a, b int) bool { return per[a].Name < per[b].Name })

	// ---- replay files and verdict lines ----
	os.MkdirAll(filepath.Join(verifDir, "replays"), 0o755)
	seenKnown := map[string]bool{}
	for _, k := range known {
		if !seenKnown[k.Known] {
			seenKnown[k.Known] = true
			fmt.Printf("KNOWN-FINDING: property=%s %s: %s after {%s}: expected %s, observed %s\n", *prop, k.Known, k.What, k.PathStr, k.Expected, k.Observed)
		}
	}
	for _, v := range viols {
		b, _ := json.MarshalIndent(v, "", " ")
		h := sha256.Sum256(b)
		path := filepath.Join(verifDir, "replays", fmt.Sprintf("%s-%x.json", *prop, h[:6]))
		os.WriteFile(path, b, 0o644)
		fmt.Printf("VIOLATION property=%s replay=%s\n", *prop, path)
		fmt.Printf("  universe %s, setup {%s}\n  history {%s}%s\n  %s\n  expected: %s\n  observed: %s\n", v.Universe, trunc(v.SetupStr, 300), v.PathStr, fillNote(v.Fill), v.What, trunc(v.Expected, 600), trunc(v.Observed, 600))
	}

	// ---- evidence ----
	cov := map[string]any{
		"states":                                 tot.States + tot.Variants,
		"distinct_dedup_states":                  tot.States,
		"raw_variants_expanded":                  tot.Variants,
		"raw_variants_seen_not_expanded":         tot.Unexpanded,
		"transitions":                            tot.Transitions,
		"poison_differential_runs":               tot.PoisonRuns,
		"warmed_history_runs":                    tot.WarmRuns,
		"drain_epilogue_steps":                   tot.DrainSteps,
		"traces_validated_against_impl":          tot.Transitions + tot.PoisonRuns + tot.WarmRuns + tot.DrainSteps,
		"evaluations":                            tot.Evaluations,
		"distinct_nontrivial":                    tot.Nontrivial,
		"rule":                                   info.Rule,
		"samples":                                samples,
		"exhaustive":                             tot.Exhaustive && harnessErr == "",
		"max_depth":                              tot.MaxDepth,
		"faulty_transitions_skipped":             tot.FaultySkipped,
		"known_finding_transitions_not_expanded": tot.TaintedSkip,
		"jobs":                                   per,
		"state_key":                              "K_dedup for deduplication, up to R raw (K_raw) variants per state expanded",
	}
	if len(tot.Outcomes) > 0 {
		cov["outcomes"] = tot.Outcomes
	}
	for k, v := range extra {
		cov[k] = v
	}
	if len(samples) == 0 {
		cov["samples"] = []any{"(no job produced a sample)"}
	}
	if harnessErr != "" {
		cov["harness_errors"] = harnessErr
	}
	ev := map[string]any{
		"property_id": *prop,
		"tier":        *tier,
		"seed":        seed,
		"level":       info.Level,
		"coverage":    cov,
		"assumptions": info.Assume,
		"wall_s":      time.Since(start).Seconds(),
		"violations":  len(viols),
		"known":       len(seenKnown),
	}
	if info.Level != "model_checking" {
		for _, k := range []string{"states", "transitions", "traces_validated_against_impl", "distinct_dedup_states", "raw_variants_expanded", "raw_variants_seen_not_expanded", "poison_differential_runs", "warmed_history_runs", "drain_epilogue_steps", "state_key", "max_depth", "faulty_transitions_skipped", "known_finding_transitions_not_expanded"} {
			delete(cov, k)
		}
	}
	if info.PostMerge != nil {
		info.PostMerge(ev)
	}
	evDir := filepath.Join(verifDir, "evidence")
	if d := os.Getenv("VERIF_EVIDENCE_DIR"); d != "" {
		evDir = d
	}
	os.MkdirAll(evDir, 0o755)
	b, _ := json.MarshalIndent(ev, "", " ")
	os.WriteFile(filepath.Join(evDir, *prop+".json"), b, 0o644)

	fmt.Printf("%s %s: %d jobs, %d states (+%d raw variants), %d transitions, %d evaluations (%d non-trivial), exhaustive=%v, %.1fs\n",
		*prop, *tier, len(jobs), tot.States, tot.Variants, tot.Transitions, tot.Evaluations, tot.Nontrivial, cov["exhaustive"], time.Since(start).Seconds())
	if len(viols) > 0 {
		os.Exit(1)
	}
	if harnessErr != "" {
		fmt.Fprint(os.Stderr, "HARNESS ERRORS:\n"+harnessErr)
		os.Exit(2)
	}
}

func fillNote(f string) string {
	if f == "" {
		return ""
	}
	if f == "drain-asc" || f == "drain-desc" {
		return " [variant: after the history every stored key is deleted one by one, " + map[string]string{"drain-asc": "ascending", "drain-desc": "descending"}[f] + "]"
	}
	if f == "warm" {
		return " [variant: read-only queries interleaved after every operation]"
	}
	if strings.HasPrefix(f, "churn-") {
		return " [variant: after the history the first and the last stored free key are deleted and re-inserted " + strings.TrimPrefix(f, "churn-") + " times each]"
	}
	return " [pre-state dead bytes overwritten with " + f + "]"
}

func trunc(s string, n int) string {
	if len(s) > n {
		return s[:n] + "…"
	}
	return s
}

func firstLines(s string, n int) string {
	l := strings.Split(strings.TrimSpace(s), "\n")
	if len(l) > n {
		l = l[:n]
	}
	return strings.Join(l, "\n")
}

func lastLines(s string, n int) string {
	l := strings.Split(strings.TrimSpace(s), "\n")
	if len(l) > n {
		l = l[len(l)-n:]
	}
	return strings.Join(l, "\n")
}
