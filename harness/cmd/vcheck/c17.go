package main

import "verif/hist"

func init() {
	props["C17"] = &propInfo{Level: "exploration",
		Rule:   "small closures of every tree kind supply the reachable states; for every (state, operation cycle) pair - each Search, each sequence method, Minimum/Maximum/Size, every overwrite, every Delete of an absent key, every Delete;Insert churn pair - the cycle is pumped 40000 times and live heap (HeapAlloc after two forced collections) compared before/after against a fixed 64 KiB threshold (a per-operation leak of 8 bytes yields 320 KiB); for every state 200 trees are driven there, churned and emptied, retained heap per tree <= 4 KiB (32 KiB collation). additionally a sliding window over an unbounded stream of fresh keys: every (key-group shape, deletion order) pair of 6 shapes (leaf + long-path subtree, two-level, short, fan-out 5/17/49; all permutations for groups of <= 4 keys) pumped for 20000 window steps at bounded size (window of two groups, and window zero: the tree empties after every group); content clause: per tree kind 300 keys with 16 KiB values are inserted and then leave the tree in five ways (three deletion orders, overwrite with a small value, delete/re-insert/delete) and a tree of 2*10^5 keys is emptied in three orders: <= 256 KiB may stay; spread: after one 24 KiB absent key has been queried, 1000 keys cut out of short-lived 64 KiB pages (string keys, and byte-slice windows with spare capacity) are built and then deleted/re-inserted one by one with 30 searches in between (the build keeps the keys, not the pages; the churn does not grow the heap); the number of goroutines is compared across every pumped cycle; evaluations = (state,cycle) and (shape,order) pairs measured, all distinct; exhaustive refers to the set of pairs, the verdict per pair is a measurement",
		Assume: []string{"the verdict per pair is a measurement with a fixed history-independent threshold two orders of magnitude from both behaviours; this is as far as bounded exhaustive exploration reaches for a resource property"},
		Jobs: func(tier string, seed int) []JobDef {
			var out []JobDef
			for _, d := range hist.Registry("C17", tier) {
				out = append(out, JobDef{Name: d.Name, Args: []string{"job", "-prop", "C17", "-tier", tier, "-universe", d.Name}})
			}
			for _, j := range append(hist.ChurnJobs(), hist.ReleaseJobs()...) {
				out = append(out, JobDef{Name: j, Args: []string{"job", "-prop", "C17", "-tier", tier, "-universe", j}})
			}
			return out
		}}
}
