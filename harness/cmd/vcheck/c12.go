package main

import "verif/hist"

func init() {
	props["C12"] = &propInfo{Level: "model_checking",
		Rule: "explicit-state BFS to closure over interleaved Insert/Delete histories of 2-3 real trees of mixed kinds on one goroutine, over the real sync.Pool whose behaviour is an enumerated environment choice (hand-out order lifo/fifo per job, at most one 'this pool class answers New()' deviation per history); pool contents are part of the state key; after every transition every tree is compared with its own ideal map and canonical structure (an emptied tree must be a new tree) and from every new state a deterministic fill/drain epilogue drives every tree through all size classes; an evaluation is non-trivial when the probed key is present",
		Assume: []string{"GOMAXPROCS(1) with the collector off inside a job: the real sync.Pool then hands nodes out in the order the hook refills them (self-tested at job start)",
			"verdicts are behavioural only (results, structure of each tree); the content of pooled nodes is part of the state key, never of the verdict"},
		Jobs: func(tier string, seed int) []JobDef {
			var out []JobDef
			for _, p := range hist.ProductSpecs(tier) {
				out = append(out, JobDef{Name: "product/" + p.Name, Args: []string{"job", "-prop", "C12", "-tier", tier, "-universe", "product/" + p.Name}})
			}
			return out
		}}
}
