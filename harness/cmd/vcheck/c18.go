package main

import (
	"fmt"
	"os"

	"verif/hist"
	"verif/scen"
)

func init() {
	props["C18"] = &propInfo{Level: "model_checking",
		Rule: "explicit-state BFS to closure over Insert/Delete histories of every tree kind x 10 value types (int, string, *struct, []byte, struct{}, [24]uint64, struct{ptr,string,slice}, int8, [3]byte, [11]byte), two values per key so that overwrites are transitions, every key width; keys and values are fresh heap objects referenced only by the tree; the collector is an enumerated environment event: a forced collection after every operation of every replay (thorough: additionally every subset of positions for histories of up to 8 operations); GODEBUG=clobberfree=1, GC percent 1, checkptr-instrumented build; in every reachable state every stored key and value is compared deeply with the reference through Search, All, Backward, extremes and Range; a runtime fatal error of the job is a violation; address-shaped keys: per tree kind, keys whose bytes read as addresses inside just-freed spans, as the dead-pointer pattern, as tiny and top-of-space addresses, with collections between the operations (a tree keeping key bytes in memory the collector scans dies there)",
		Assume: []string{"collections at operation boundaries: every position (thorough: every subset for histories <= 8 operations); collections inside operations: every statement boundary of representative histories (insert all, iterate, range, delete half, iterate, search all) per tree kind with pointer-rich values, one event per history (thorough: every pair of events at most 48 statement positions apart), on the overlay-instrumented build",
			"clobberfree makes use-after-free of a hidden reference a deterministic mismatch rather than a lucky read"},
		Jobs: func(tier string, seed int) []JobDef {
			var out []JobDef
			bin := os.Getenv("VERIF_BIN_PTR")
			for _, d := range hist.Registry("C18", tier) {
				out = append(out, JobDef{Name: d.Name, Bin: bin, Env: []string{"GODEBUG=clobberfree=1"}, CrashIsViolation: true,
					Args: []string{"job", "-prop", "C18", "-tier", tier, "-universe", d.Name}})
			}
			// key bytes that look like addresses the collector rejects (no clobberfree: the spans must stay freed, not poisoned)
			for _, j := range hist.PtrKeyJobs() {
				out = append(out, JobDef{Name: j, Bin: bin, CrashIsViolation: true, Args: []string{"job", "-prop", "C18", "-tier", tier, "-universe", j}})
			}
			// collections at every statement boundary inside operations (engine E4, instrumented build)
			sbin := os.Getenv("VERIF_BIN_SCHED")
			events := "1"
			shards := 1
			if tier == "thorough" {
				events = "2"
				shards = 8
			}
			for _, sc := range scen.GCScenarios(tier) {
				for s := 0; s < shards; s++ {
					out = append(out, JobDef{Name: fmt.Sprintf("%s#%d/%d", sc.Name, s, shards), Bin: sbin, Env: []string{"GODEBUG=clobberfree=1"}, CrashIsViolation: true,
						Args: []string{"job", "-prop", "C18", "-tier", tier, "-universe", sc.Name, "-bound", events, "-shard", fmt.Sprint(s), "-shards", fmt.Sprint(shards)}})
				}
			}
			return out
		}}
}
