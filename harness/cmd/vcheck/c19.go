package main

import (
	"bytes"
	"fmt"
	"os"
	"os/exec"
	"path/filepath"
	"regexp"
	"strings"
	"time"

	"verif/hist"
)

// C19: the five generated trees are what the repository's generator produces.

var leafRe = regexp.MustCompile(`(?m)^type (\w+)LeafNode\[V any\] struct`)

// splitInstantiations cuts trees.go at the five `type ...LeafNode` boundaries.
func splitInstantiations(src []byte) (header []byte, names []string, parts [][]byte) {
	locs := leafRe.FindAllSubmatchIndex(src, -1)
	if len(locs) == 0 {
		return src, nil, nil
	}
	header = src[:locs[0][0]]
	for i, l := range locs {
		end := len(src)
		if i+1 < len(locs) {
			end = locs[i+1][0]
		}
		names = append(names, string(src[l[2]:l[3]]))
		parts = append(parts, src[l[0]:end])
	}
	return
}

func firstDiffLine(a, b []byte) string {
	la, lb := strings.Split(string(a), "\n"), strings.Split(string(b), "\n")
	for i := 0; i < len(la) || i < len(lb); i++ {
		var x, y string
		if i < len(la) {
			x = la[i]
		}
		if i < len(lb) {
			y = lb[i]
		}
		if x != y {
			return fmt.Sprintf("line %d: checked-in %q vs generated %q", i+1, x, y)
		}
	}
	return "identical"
}

func runC19(name, tier string) *hist.Result {
	start := time.Now()
	res := &hist.Result{Universe: name, Property: "C19"}
	st := &res.Stats
	st.Exhaustive = true
	defer func() { st.WallS = time.Since(start).Seconds() }()
	repo := os.Getenv("VERIF_REPO")
	if repo == "" {
		repo = "/repo"
	}
	vgo := os.Getenv("VGO")
	if vgo == "" {
		vgo = "go"
	}
	verifDir := os.Getenv("VERIF_DIR")
	if verifDir == "" {
		verifDir = "/verif"
	}
	checked, err := os.ReadFile(filepath.Join(repo, "trees.go"))
	if err != nil {
		res.HarnessErr = err.Error()
		return res
	}
	_, wantNames, _ := splitInstantiations(checked)
	programs := 0
	// the generator is run several times per initial state: an output that varies between runs (e.g. map iteration order
	// in the generator) cannot be "what the generator produces", and a single lucky run must not hide it
	for _, initial := range []string{"absent", "checked-in", "absent", "checked-in", "absent", "absent"} {
		dir, err := os.MkdirTemp(filepath.Join(verifDir, ".work"), "c19-")
		if err != nil {
			res.HarnessErr = err.Error()
			return res
		}
		defer os.RemoveAll(dir)
		os.MkdirAll(filepath.Join(dir, "cmd/go-art"), 0o755)
		for _, f := range []string{"cmd/go-art/main.go", "cmd/go-art/tree.tmpl", "gen.go", "go.mod", "go.sum"} {
			b, err := os.ReadFile(filepath.Join(repo, f))
			if err != nil {
				res.HarnessErr = err.Error()
				return res
			}
			os.WriteFile(filepath.Join(dir, f), b, 0o644)
		}
		if initial == "checked-in" {
			os.WriteFile(filepath.Join(dir, "trees.go"), checked, 0o644)
		}
		// exactly the two go:generate directives of gen.go
		for _, c := range [][]string{{vgo, "run", "cmd/go-art/main.go"}, {filepath.Join(filepath.Dir(vgo), "gofmt"), "-w", "trees.go"}} {
			cmd := exec.Command(c[0], c[1:]...)
			cmd.Dir = dir
			cmd.Env = append(os.Environ(), "GOFLAGS=-mod=mod")
			if out, err := cmd.CombinedOutput(); err != nil {
				// a generator or formatter failure means the generated file cannot be what the generator produces
				v := &hist.Violation{Property: "C19", Universe: name, Tier: tier, What: "running " + strings.Join(c[1:], " ") + " (initial trees.go: " + initial + ")",
					Expected: "generator and gofmt succeed", Observed: trunc(string(out), 800)}
				res.Violations = append(res.Violations, v)
				return res
			}
		}
		gen, err := os.ReadFile(filepath.Join(dir, "trees.go"))
		if err != nil {
			res.HarnessErr = err.Error()
			return res
		}
		gh, gn, gp := splitInstantiations(gen)
		ch, cn, cp := splitInstantiations(checked)
		st.Evaluations++
		if !bytes.Equal(gh, ch) {
			res.Violations = append(res.Violations, &hist.Violation{Property: "C19", Universe: name, Tier: tier, What: "file header of trees.go (initial trees.go: " + initial + ")",
				Expected: "byte-identical to gofmt(generator output)", Observed: firstDiffLine(ch, gh)})
			return res
		}
		if len(gn) != len(cn) {
			res.Violations = append(res.Violations, &hist.Violation{Property: "C19", Universe: name, Tier: tier, What: "number of generated tree implementations (initial trees.go: " + initial + ")",
				Expected: fmt.Sprint(gn), Observed: fmt.Sprint(cn)})
			return res
		}
		for i := range gn {
			st.Evaluations++
			st.Nontrivial++
			programs++
			if gn[i] != cn[i] || !bytes.Equal(gp[i], cp[i]) {
				res.Violations = append(res.Violations, &hist.Violation{Property: "C19", Universe: name, Tier: tier,
					What:     fmt.Sprintf("instantiation %q of trees.go vs generator output (initial trees.go: %s)", cn[i], initial),
					Expected: "byte-identical to gofmt(generator output)", Observed: firstDiffLine(cp[i], gp[i])})
				return res
			}
		}
	}
	st.Extra = map[string]float64{"programs": float64(len(wantNames)), "comparisons": float64(programs)}
	st.Samples = append(st.Samples, fmt.Sprintf("instantiations %v, each compared byte-for-byte against gofmt(go run cmd/go-art/main.go) from initial states {absent, checked-in}, six generator runs in all", wantNames))
	return res
}

func init() {
	props["C19"] = &propInfo{Level: "translation_validation",
		Rule:   "the quantifier domain is the five template instantiations; each is compared byte-for-byte with the formatted output of the repository's own generator run on the working tree's template, for both initial states of the output file (the generator opens it without truncation), six generator runs in all (an output that varies between runs is a violation)",
		Assume: []string{"the Go toolchain's text/template and gofmt are trusted"},
		Jobs: func(tier string, seed int) []JobDef {
			return []JobDef{{Name: "generator", Args: []string{"job", "-prop", "C19", "-tier", tier, "-universe", "generator"}}}
		},
		PostMerge: func(ev map[string]any) {
			cov := ev["coverage"].(map[string]any)
			p, _ := cov["programs"].(float64)
			cov["programs"] = int(p)
			viol, _ := ev["violations"].(int)
			cov["disagreements_checked"] = viol
			delete(cov, "states")
			delete(cov, "transitions")
			delete(cov, "traces_validated_against_impl")
		}}
}
