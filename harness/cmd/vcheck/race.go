package main

import (
	"encoding/json"
	"flag"
	"fmt"
	"os"
	"os/exec"
	"runtime"
	"sync"
	"time"

	"verif/hist"
	"verif/scen"
)

// cmdRace is the free-running pass of C16: the scenario bodies on real goroutines with the
// real sync.Pool, meant for a -race build. A detector report kills the process (GORACE
// halt_on_error=1); wrong observations are reported here.
func cmdRace(args []string) {
	fs := flag.NewFlagSet("race", flag.ExitOnError)
	tier := fs.String("tier", "quick", "")
	rounds := fs.Int("rounds", 200, "")
	out := fs.String("out", "", "")
	fs.Duration("deadline", 0, "")
	fs.String("prop", "C16", "")
	fs.String("universe", "", "")
	first := fs.String("first", "", "run this scenario once, concurrently, as the very first use of the library in this process")
	procsFlag := fs.Int("procs", 4, "")
	fs.Parse(args)
	if *first != "" {
		raceFirstUse(*tier, *first, *procsFlag)
		return
	}
	start := time.Now()
	execs := 0
	res := &hist.Result{Universe: "race-pass", Property: "C16"}
	res.Stats.Exhaustive = true
	fail := func(msg string) {
		fmt.Println(msg)
		res.Violations = append(res.Violations, &hist.Violation{Property: "C16", Universe: "race-pass", Tier: *tier, Tags: []string{"crash"},
			What: "free-running pass (real goroutines, real sync.Pool)", Expected: "every goroutine observes its sequential results, no panic", Observed: msg})
		b, _ := json.MarshalIndent(res, "", " ")
		if *out != "" {
			os.WriteFile(*out, b, 0o644)
		}
		os.Exit(1)
	}
	// first-use executions: one fresh process per (scenario, GOMAXPROCS) in which the concurrent bodies are the first
	// calls into the library (tables built lazily, high-water marks and one-time initialisation are written then and
	// never again; the in-process rounds below only see them warmed up)
	firstUse := 0
	for _, sc := range scen.Scenarios(*tier) {
		for _, procs := range []int{2, 4, 16} {
			cmd := exec.Command(os.Args[0], "race", "-tier", *tier, "-first", sc.Name, "-procs", fmt.Sprint(procs))
			cmd.Env = os.Environ()
			outb, err := cmd.CombinedOutput()
			firstUse++
			if err != nil {
				txt := string(outb)
				if len(txt) > 3000 {
					txt = txt[:3000]
				}
				fail(fmt.Sprintf("RACE-PASS-FAIL scenario=%s procs=%d first use in a fresh process: %v\n%s", sc.Name, procs, err, txt))
			}
		}
	}
	for _, sc := range scen.Scenarios(*tier) {
		// sequential reference
		refInst := sc.New()
		for _, b := range refInst.Bodies {
			b()
		}
		ref := refInst.Obs()
		for _, procs := range []int{2, 4, 16} {
			runtime.GOMAXPROCS(procs)
			for r := 0; r < *rounds; r++ {
				inst := sc.New()
				var wg sync.WaitGroup
				startGate := make(chan struct{})
				panics := make([]string, len(inst.Bodies))
				for i, b := range inst.Bodies {
					wg.Add(1)
					go func(i int, b func()) {
						defer wg.Done()
						defer func() {
							if x := recover(); x != nil {
								panics[i] = fmt.Sprint(x)
							}
						}()
						<-startGate
						if r%3 == 1 {
							runtime.Gosched()
						}
						b()
					}(i, b)
				}
				close(startGate)
				wg.Wait()
				execs++
				for i, p := range panics {
					if p != "" {
						fail(fmt.Sprintf("RACE-PASS-FAIL scenario=%s procs=%d goroutine %d panicked: %s", sc.Name, procs, i+1, p))
					}
				}
				obs := inst.Obs()
				for t := range ref {
					if fmt.Sprint(ref[t]) != fmt.Sprint(obs[t]) {
						fail(fmt.Sprintf("RACE-PASS-FAIL scenario=%s procs=%d goroutine %d observed %v, sequential %v", sc.Name, procs, t+1, obs[t], ref[t]))
					}
				}
				if msg := inst.Post(); msg != "" {
					fail(fmt.Sprintf("RACE-PASS-FAIL scenario=%s procs=%d final state: %s", sc.Name, procs, msg))
				}
			}
		}
	}
	fmt.Printf("RACE-PASS-OK executions=%d wall=%.1fs\n", execs, time.Since(start).Seconds())
	res.Stats.Extra = map[string]float64{"race_pass_free_running_executions": float64(execs), "race_pass_first_use_processes": float64(firstUse)}
	res.Stats.WallS = time.Since(start).Seconds()
	res.Stats.Samples = []string{fmt.Sprintf("free-running -race pass (sampling, reported separately): %d executions of the scenario bodies on real goroutines, GOMAXPROCS 2/4/16, after %d first-use executions in fresh processes", execs, firstUse)}
	b, _ := json.MarshalIndent(res, "", " ")
	if *out != "" {
		os.WriteFile(*out, b, 0o644)
	}
}

// raceFirstUse runs one scenario concurrently as the first thing this process does with the library, then compares
// with a sequential execution made afterwards. Exit status 1 on a wrong observation; a detector report ends the process.
func raceFirstUse(tier, name string, procs int) {
	for _, sc := range scen.Scenarios(tier) {
		if sc.Name != name {
			continue
		}
		runtime.GOMAXPROCS(procs)
		inst := sc.New()
		var wg sync.WaitGroup
		gate := make(chan struct{})
		panics := make([]string, len(inst.Bodies))
		for i, b := range inst.Bodies {
			wg.Add(1)
			go func(i int, b func()) {
				defer wg.Done()
				defer func() {
					if x := recover(); x != nil {
						panics[i] = fmt.Sprint(x)
					}
				}()
				<-gate
				b()
			}(i, b)
		}
		close(gate)
		wg.Wait()
		for i, p := range panics {
			if p != "" {
				fmt.Printf("goroutine %d panicked: %s\n", i+1, p)
				os.Exit(1)
			}
		}
		obs := inst.Obs()
		if msg := inst.Post(); msg != "" {
			fmt.Println("final state:", msg)
			os.Exit(1)
		}
		refInst := sc.New()
		for _, b := range refInst.Bodies {
			b()
		}
		ref := refInst.Obs()
		for t := range ref {
			if fmt.Sprint(ref[t]) != fmt.Sprint(obs[t]) {
				fmt.Printf("goroutine %d observed %v, sequential %v\n", t+1, obs[t], ref[t])
				os.Exit(1)
			}
		}
		return
	}
	fmt.Println("no scenario", name)
	os.Exit(2)
}
