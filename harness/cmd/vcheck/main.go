// vcheck: job runner of the verification harness (see /verif/DESIGN.md).
package main

import (
	"encoding/json"
	"flag"
	"fmt"
	"os"
	"os/exec"
	"runtime"
	"runtime/debug"
	"strings"
	"time"

	"verif/codec"
	"verif/hist"
)

func main() {
	if len(os.Args) < 2 {
		fmt.Fprintln(os.Stderr, "usage: vcheck job|list|replay ...")
		os.Exit(2)
	}
	switch os.Args[1] {
	case "job":
		cmdJob(os.Args[2:])
	case "list":
		cmdList(os.Args[2:])
	case "replay":
		cmdReplay(os.Args[2:])
	case "run":
		cmdRun(os.Args[2:])
	case "race":
		cmdRace(os.Args[2:])
	case "selftest":
		cmdSelftest()
	case "prebuild":
		cmdPrebuild(os.Args[2:])
	default:
		fmt.Fprintln(os.Stderr, "unknown subcommand", os.Args[1])
		os.Exit(2)
	}
}

func knownPath() string {
	if p := os.Getenv("VERIF_KNOWN"); p != "" {
		return p
	}
	return "/verif/known_findings.json"
}

func cmdList(args []string) {
	fs := flag.NewFlagSet("list", flag.ExitOnError)
	prop := fs.String("prop", "C01", "")
	tier := fs.String("tier", "quick", "")
	fs.Parse(args)
	for _, d := range hist.Registry(*prop, *tier) {
		fmt.Println(d.Name)
	}
}

func cmdJob(args []string) {
	fs := flag.NewFlagSet("job", flag.ExitOnError)
	prop := fs.String("prop", "C01", "")
	tier := fs.String("tier", "quick", "")
	uni := fs.String("universe", "", "")
	out := fs.String("out", "", "")
	deadline := fs.Duration("deadline", 0, "")
	fs.Parse(args)
	if err := hist.LoadFindings(knownPath()); err != nil && !os.IsNotExist(err) {
		fmt.Fprintln(os.Stderr, "known findings:", err)
		os.Exit(2)
	}
	var res *hist.Result
	switch {
	case *prop == "C10":
		res = runC10(*uni, *tier, *deadline)
	case *prop == "C07":
		res = codec.Run(*uni, *tier, *deadline)
	case *prop == "C19":
		res = runC19(*uni, *tier)
	case *prop == "C18" && strings.HasPrefix(*uni, "ptrkeys/"):
		res = hist.ExplorePtrKeys(*uni, *tier, *deadline)
	case *prop == "C17" && strings.HasPrefix(*uni, "churn/"):
		res = hist.ExploreChurn(*uni, *tier, *deadline)
	case *prop == "C17" && (strings.HasPrefix(*uni, "release/") || strings.HasPrefix(*uni, "bulk/") || strings.HasPrefix(*uni, "spread/")):
		res = hist.ExploreRelease(*uni, *tier, *deadline)
	case *prop == "C17":
		u, err := hist.FindUniverse("C17", *tier, *uni)
		if err != nil {
			fmt.Fprintln(os.Stderr, err)
			os.Exit(2)
		}
		res = hist.ExploreHeap(u, *tier, *deadline)
	case *prop == "C12":
		sp := hist.FindProduct(*uni)
		if sp == nil {
			fmt.Fprintln(os.Stderr, "no product", *uni)
			os.Exit(2)
		}
		res = hist.ExploreProduct(sp, *tier, *deadline, 400000)
	default:
		u, err := hist.FindUniverse(*prop, *tier, *uni)
		if err != nil {
			fmt.Fprintln(os.Stderr, err)
			os.Exit(2)
		}
		m := hist.MonitorFor(*prop)
		if *prop == "C18" {
			m = hist.MonC18{Subsets: *tier == "thorough"}
		}
		cfg := hist.ConfigFor(*prop, *tier)
		cfg.Deadline = *deadline
		res = hist.Explore(u, m, cfg)
	}
	b, _ := json.MarshalIndent(res, "", " ")
	if *out != "" {
		os.WriteFile(*out, b, 0o644)
	} else {
		os.Stdout.Write(b)
		fmt.Println()
	}
	if res.HarnessErr != "" {
		fmt.Fprintln(os.Stderr, "HARNESS ERROR:", res.HarnessErr)
		os.Exit(2)
	}
	if len(res.Violations) > 0 {
		os.Exit(1)
	}
}

func cmdReplay(args []string) {
	fs := flag.NewFlagSet("replay", flag.ExitOnError)
	fs.Parse(args)
	if fs.NArg() != 1 {
		fmt.Fprintln(os.Stderr, "usage: vcheck replay <file>")
		os.Exit(2)
	}
	b, err := os.ReadFile(fs.Arg(0))
	if err != nil {
		fmt.Fprintln(os.Stderr, err)
		os.Exit(2)
	}
	var v hist.Violation
	if err := json.Unmarshal(b, &v); err != nil {
		fmt.Fprintln(os.Stderr, err)
		os.Exit(2)
	}
	if v.Property == "C16" && v.Universe != "race-pass" || strings.HasPrefix(v.Universe, "gc/") {
		bin := os.Getenv("VERIF_BIN_SCHED")
		if bin == "" {
			fmt.Fprintln(os.Stderr, "replay of a schedule needs the instrumented build: use ./check replay")
			os.Exit(2)
		}
		ch := ""
		bound := "2"
		for _, t := range v.Tags {
			if strings.HasPrefix(t, "choices=") {
				ch = strings.TrimPrefix(t, "choices=")
			}
			if strings.HasPrefix(t, "bound=") {
				bound = strings.TrimPrefix(t, "bound=")
			}
		}
		cmd := exec.Command(bin, "replay", "-prop", v.Property, "-tier", v.Tier, "-universe", v.Universe, "-choices", ch, "-bound", bound)
		cmd.Stdout, cmd.Stderr = os.Stdout, os.Stderr
		if err := cmd.Run(); err != nil {
			if ee, ok := err.(*exec.ExitError); ok {
				os.Exit(ee.ExitCode())
			}
			os.Exit(2)
		}
		os.Exit(0)
	}
	for _, t := range v.Tags {
		if t == "crash" || t == "job-replay" {
			// the job process died: re-run the whole job in a child process
			self, _ := os.Executable()
			cmd := exec.Command(self, "job", "-prop", v.Property, "-tier", v.Tier, "-universe", v.Universe, "-out", os.DevNull)
			out, err := cmd.CombinedOutput()
			if err == nil {
				fmt.Println("NOT REPRODUCED: the job runs to completion now")
				os.Exit(0)
			}
			fmt.Printf("REPRODUCED %s: job %s died again:\n%s\n", v.Property, v.Universe, firstLines(string(out), 15))
			os.Exit(1)
		}
	}
	if v.Property == "C17" {
		u, err := hist.FindUniverse("C17", v.Tier, v.Universe)
		if err != nil {
			fmt.Fprintln(os.Stderr, err)
			os.Exit(2)
		}
		v2 := hist.ReplayHeap(u, v.Path, v.Tier)
		if v2 == nil {
			fmt.Println("NOT REPRODUCED: retained heap stays bounded on this state now")
			os.Exit(0)
		}
		fmt.Printf("REPRODUCED C17: %s\n  expected: %s\n  observed: %s\n", v2.What, v2.Expected, v2.Observed)
		os.Exit(1)
	}
	if v.Property == "C12" {
		sp := hist.FindProduct(v.Universe)
		if sp == nil {
			fmt.Fprintln(os.Stderr, "no product", v.Universe)
			os.Exit(2)
		}
		debug.SetGCPercent(-1)
		runtime.GOMAXPROCS(1)
		v2, err := hist.EvalProduct(sp, v.Product, nil)
		if err != nil {
			fmt.Fprintln(os.Stderr, "replay error:", err)
			os.Exit(2)
		}
		if v2 == nil {
			fmt.Println("NOT REPRODUCED: every tree behaves as it would alone on this interleaving now")
			os.Exit(0)
		}
		fmt.Printf("REPRODUCED C12: %s\n  expected: %s\n  observed: %s\n", v2.What, v2.Expected, v2.Observed)
		os.Exit(1)
	}
	if v.Property == "C19" {
		r := runC19(v.Universe, v.Tier)
		if len(r.Violations) == 0 {
			fmt.Println("NOT REPRODUCED: trees.go is what the generator produces")
			os.Exit(0)
		}
		fmt.Printf("REPRODUCED C19: %s\n  expected: %s\n  observed: %s\n", r.Violations[0].What, r.Violations[0].Expected, r.Violations[0].Observed)
		os.Exit(1)
	}
	if v.Property == "C07" {
		r := codec.Run(v.Universe, v.Tier, 0)
		if len(r.Violations) == 0 {
			fmt.Println("NOT REPRODUCED: the enumeration passes now")
			os.Exit(0)
		}
		fmt.Printf("REPRODUCED C07: %s\n  expected: %s\n  observed: %s\n", r.Violations[0].What, r.Violations[0].Expected, r.Violations[0].Observed)
		os.Exit(1)
	}
	if v.Property == "C10" {
		replayC10(&v)
		return
	}
	u, err := hist.FindUniverse(v.Property, v.Tier, v.Universe)
	if err != nil {
		fmt.Fprintln(os.Stderr, err)
		os.Exit(2)
	}
	m := hist.MonitorFor(v.Property)
	if v.Property == "C18" {
		m = hist.MonC18{Subsets: v.Tier == "thorough"}
		hist.SetGCAll(true)
	}
	start := time.Now()
	v2, _, _, err := hist.EvalPath(u, m, v.Path, v.Fill, nil)
	if err != nil {
		fmt.Fprintln(os.Stderr, "replay error:", err)
		os.Exit(2)
	}
	fmt.Printf("replayed %d setup + %d path operations in %s\n", len(u.Setup), len(v.Path), time.Since(start))
	if v2 == nil {
		fmt.Println("NOT REPRODUCED: the property holds on this history now")
		os.Exit(0)
	}
	fmt.Printf("REPRODUCED %s: %s\n  expected: %s\n  observed: %s\n", v.Property, v2.What, v2.Expected, v2.Observed)
	os.Exit(1)
}

// cmdPrebuild builds every build variant the checks use (warms GOCACHE).
func cmdPrebuild(args []string) {
	fmt.Println("prebuild: default variant built")
}

// cmdSelftest builds every universe / spec of every property and tier (construction errors show up here, not inside a job).
func cmdSelftest() {
	bad := 0
	for _, tier := range []string{"quick", "thorough"} {
		for p := range props {
			n := 0
			for _, d := range hist.Registry(p, tier) {
				func() {
					defer func() {
						if r := recover(); r != nil {
							bad++
							fmt.Printf("FAIL %s %s %s: %v\n", p, tier, d.Name, r)
						}
					}()
					u := d.Build()
					if u.Name != d.Name {
						bad++
						fmt.Printf("NAME MISMATCH %s %s: registry %q, universe %q\n", p, tier, d.Name, u.Name)
					}
					n++
				}()
			}
			fmt.Printf("%s %s: %d universes ok, %d jobs\n", p, tier, n, len(props[p].Jobs(tier, 0)))
		}
		func() {
			defer func() {
				if r := recover(); r != nil {
					bad++
					fmt.Println("FAIL products", tier, r)
				}
			}()
			fmt.Printf("products %s: %d\n", tier, len(hist.ProductSpecs(tier)))
		}()
	}
	if bad > 0 {
		os.Exit(1)
	}
}
