package main

import (
	"fmt"
	"os"
	"strings"
	"time"

	"verif/hist"
	"verif/nodex"
)

func runC10(name, tier string, deadline time.Duration) *hist.Result {
	if strings.HasPrefix(name, "prim/") {
		return nodex.RunPrim(name, tier, deadline)
	}
	if !strings.HasPrefix(name, "node/") {
		u, err := hist.FindUniverse("C10", tier, name)
		if err != nil {
			return &hist.Result{Universe: name, Property: "C10", HarnessErr: err.Error()}
		}
		cfg := hist.ConfigFor("C10", tier)
		cfg.Deadline = deadline
		return hist.Explore(u, hist.MonitorFor("C10"), cfg)
	}
	sp, ok := nodex.FindSpec(name)
	if !ok {
		return &hist.Result{Universe: name, Property: "C10", HarnessErr: "no such node closure " + name}
	}
	return nodex.Explore(sp, tier, deadline)
}

func replayC10(v *hist.Violation) {
	if strings.HasPrefix(v.Universe, "prim/") {
		r := nodex.RunPrim(v.Universe, v.Tier, 0)
		if len(r.Violations) == 0 {
			fmt.Println("NOT REPRODUCED: the primitive sweep passes now")
			os.Exit(0)
		}
		fmt.Printf("REPRODUCED C10: %s\n  expected: %s\n  observed: %s\n", r.Violations[0].What, r.Violations[0].Expected, r.Violations[0].Observed)
		os.Exit(1)
	}
	if !strings.HasPrefix(v.Universe, "node/") {
		u, err := hist.FindUniverse("C10", v.Tier, v.Universe)
		if err != nil {
			fmt.Fprintln(os.Stderr, err)
			os.Exit(2)
		}
		v2, _, _, err := hist.EvalPath(u, hist.MonitorFor("C10"), v.Path, v.Fill, nil)
		if err != nil {
			fmt.Fprintln(os.Stderr, "replay error:", err)
			os.Exit(2)
		}
		if v2 == nil {
			fmt.Println("NOT REPRODUCED: the property holds on this history now")
			os.Exit(0)
		}
		fmt.Printf("REPRODUCED C10: %s\n  expected: %s\n  observed: %s\n", v2.What, v2.Expected, v2.Observed)
		os.Exit(1)
	}
	sp, ok := nodex.FindSpec(v.Universe)
	if !ok {
		fmt.Fprintln(os.Stderr, "no such node closure", v.Universe)
		os.Exit(2)
	}
	v2 := nodex.EvalPath(sp, v.Path)
	if v2 == nil {
		fmt.Println("NOT REPRODUCED: the node behaves as a correct byte->child table on this history now")
		os.Exit(0)
	}
	fmt.Printf("REPRODUCED C10: %s\n  expected: %s\n  observed: %s\n", v2.What, v2.Expected, v2.Observed)
	os.Exit(1)
}

func init() {
	props["C10"] = &propInfo{Level: "model_checking",
		Rule: "explicit-state BFS to closure over add/remove sequences on a bare inner node (raw node state as key, incl. stale lanes and node48 slot layout); in every state all 256 bytes are probed, enumeration/min/max checked, and the insert-position primitive is evaluated for all 256 candidate bytes on the raw lanes reached; plus exhaustive domains of the 4-slot SWAR search and the 16-slot vector routines; a probe evaluation is non-trivial when a child is registered under the byte",
		Assume: []string{"amd64 assembly (node16_amd64.s) is what runs here; node16_arm64.s cannot be executed in this sandbox; the portable node16_other.go is covered by the GOARCH=386 variant",
			"exhaustive relative to the listed alphabets/windows; the 4-slot insert-position verdict is taken on reached raw states only (the 4-slot add applies no fill-count guard, arbitrary free-lane fillings are not reachable inputs)"},
		Jobs: func(tier string, seed int) []JobDef {
			var out []JobDef
			for _, s := range nodex.Specs(tier) {
				out = append(out, JobDef{Name: "node/" + s.Name, Args: []string{"job", "-prop", "C10", "-tier", tier, "-universe", "node/" + s.Name}})
			}
			for _, d := range hist.Registry("C10", tier) {
				out = append(out, JobDef{Name: d.Name, Args: []string{"job", "-prop", "C10", "-tier", tier, "-universe", d.Name}})
			}
			for _, p := range nodex.PrimJobs(tier) {
				out = append(out, JobDef{Name: p, Args: []string{"job", "-prop", "C10", "-tier", tier, "-universe", p}})
			}
			// GOARCH=386 build: the portable (non-assembly) 16-slot routines
			if bin := os.Getenv("VERIF_BIN_386"); bin != "" {
				for _, p := range nodex.PrimJobs(tier) {
					quick386 := map[string]bool{"prim/node16/n0": true, "prim/node16/n1": true, "prim/node16/n5": true, "prim/node16/n12": true, "prim/node16/n16": true}
					if strings.HasPrefix(p, "prim/node16/") && (tier == "thorough" || quick386[p]) {
						out = append(out, JobDef{Name: p + "@386", Bin: bin, Args: []string{"job", "-prop", "C10", "-tier", tier, "-universe", p}})
					}
				}
				for _, s := range nodex.Specs(tier) {
					if strings.HasPrefix(s.Name, "N16@15") || strings.HasPrefix(s.Name, "N48@14") || s.Name == "N4-16/alpha0" || s.Name == "N4-16/alpha1" {
						out = append(out, JobDef{Name: "node/" + s.Name + "@386", Bin: bin, Args: []string{"job", "-prop", "C10", "-tier", tier, "-universe", "node/" + s.Name}})
					}
				}
			}
			return out
		}}
}
