# sourced by ./check and helper scripts: pins the toolchain and offline flags
VERIF_DIR="${VERIF_DIR:-$(cd "$(dirname "${BASH_SOURCE[0]}")" && pwd)}"
export VERIF_DIR
export VERIF_REPO="${VERIF_REPO:-/repo}"
GOBIN_124="/root/go/pkg/mod/golang.org/toolchain@v0.0.1-go1.24.0.linux-amd64/bin/go"
if [ -x "$GOBIN_124" ]; then
  VGO="$GOBIN_124"
elif command -v go1.26.8 >/dev/null 2>&1; then
  VGO="$(command -v go1.26.8)"
else
  VGO="$(command -v go)"
fi
export VGO
export GOTOOLCHAIN=local GOFLAGS=-mod=mod GOPROXY=off GOSUMDB=off
export GOCACHE="${GOCACHE:-$VERIF_DIR/.cache/go-build}"
mkdir -p "$GOCACHE"
