#!/bin/bash
# regenerate trees.go from the template in $1 (default /repo), exactly as gen.go does
set -e
source "$(dirname "$0")/env.sh"
cd "${1:-/repo}"
rm -f trees.go
$VGO run cmd/go-art/main.go
"$(dirname "$VGO")/gofmt" -w trees.go
