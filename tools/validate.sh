#!/bin/bash
# validate MANIFEST.json and every evidence file against the schemas
cd "$(dirname "$0")/.."
python3-vt - <<'PY'
import json,jsonschema,glob,sys
ok=True
try:
    jsonschema.validate(json.load(open('MANIFEST.json')),json.load(open('/root/.vp/MANIFEST.schema.json'))); print('MANIFEST ok')
except Exception as e:
    ok=False; print('MANIFEST INVALID',str(e)[:300])
sch=json.load(open('/root/.vp/EVIDENCE.schema.json'))
m=json.load(open('MANIFEST.json'))
for c in m['checks']:
    f=c['evidence_file']
    try:
        e=json.load(open(f)); jsonschema.validate(e,sch)
        assert e['level']==c['level_claimed']['category'], 'level mismatch %s vs %s'%(e['level'],c['level_claimed']['category'])
        print(c['property_id'],'evidence ok',e['tier'],e['level'],'exhaustive=',e['coverage'].get('exhaustive'))
    except Exception as ex:
        ok=False; print(c['property_id'],'EVIDENCE PROBLEM',str(ex)[:200])
ids={c['property_id'] for c in m['checks']}|{n['property_id'] for n in m.get('not_applicable',[])}
missing=[ 'C%02d'%i for i in range(1,20) if 'C%02d'%i not in ids]
print('unlisted properties:',missing)
sys.exit(0 if ok else 1)
PY
