#!/bin/bash
# tools/try_patch.sh <patch.diff> <PROP[,PROP...]> [tier] [--suite]
# Applies a patch to a scratch worktree of /repo HEAD (outside /repo and /verif), optionally
# runs the repository's own suite there, runs the named checks against it, removes the worktree.
set -u
patch="$(realpath "$1")"; props="$2"; tier="${3:-quick}"; suite="${4:-}"
cd "$(dirname "$0")/.."
source ./env.sh
wt="$(mktemp -d /tmp/vp-scratch-XXXXXX)"
rmdir "$wt"
git -C /repo worktree add -q --detach "$wt" HEAD || exit 2
cleanup() { git -C /repo worktree remove --force "$wt" 2>/dev/null; rm -rf "$wt"; }
trap cleanup EXIT
if ! git -C "$wt" apply "$patch"; then echo "PATCH-DOES-NOT-APPLY"; exit 3; fi
if [ "$suite" = "--suite" ]; then
  if (cd "$wt" && "$VGO" test -vet=off -count=1 ./... >/dev/null 2>&1); then echo "SUITE: pass"; else echo "SUITE: FAIL"; fi
fi
rc_all=0
for p in ${props//,/ }; do
  out="$(VERIF_REPO="$wt" VERIF_EVIDENCE_DIR="$wt/.evidence" ./check "$p" "$tier" 2>&1)"; rc=$?
  echo "== $p $tier exit=$rc"
  echo "$out" | grep -A5 "^VIOLATION\|^KNOWN\|HARNESS\|BUILD FAILED" | cut -c1-400 | head -14
  echo "$out" | tail -1 | cut -c1-300
  [ $rc -ne 0 ] && rc_all=$rc
done
exit $rc_all
