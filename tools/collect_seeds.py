#!/usr/bin/env python3
"""Copies confirmed seeded changes from /tmp/seed-out into /verif/seeded/<id>/ and records
what was run against them (confirmation log + which checks raised a violation)."""
import json, os, re, shutil, sys

SRC = "/tmp/seed-out"
DST = os.path.join(os.path.dirname(os.path.dirname(os.path.abspath(__file__))), "seeded")

def parse(path):
    out = {}
    if not os.path.exists(path):
        return out
    for line in open(path):
        m = re.match(r"^(C\d\d[b-r]?-\d+) (.*)$", line.strip())
        if m:
            out[m.group(1)] = m.group(2)
    return out

confirm = {}
for f in ("confirm.log", "confirm3.log", "confirm4.log", "confirm5.log", "confirm6.log", "confirm7.log", "confirm8.log", "confirm9.log", "confirm10.log", "confirm10b.log", "confirm11.log", "confirm11b.log", "confirm12.log", "confirm13.log", "confirm14.log", "confirm15.log", "confirm16.log", "confirm17.log", "confirm18.log", "confirm19.log"):
    confirm.update(parse(os.path.join(SRC, f)))
evals = {}
for f in sys.argv[1:] or ["eval-final.log", "eval4.log", "eval5.log", "eval6.log", "eval-rerun.log", "eval7.log", "eval8.log", "eval9.log", "eval10.log", "eval10b.log", "eval11.log", "eval11b.log", "eval11-final.log", "eval12.log", "eval12b.log", "eval12-final.log", "eval13.log", "eval13b.log", "eval13-final.log", "eval14.log", "eval14-final.log", "eval14b.log", "eval14b-final.log", "eval15.log", "eval15-final.log", "eval16.log", "eval16b.log", "eval16-final.log", "eval17.log", "eval17-final.log", "eval17b.log", "eval18.log", "eval18-final.log", "eval19.log", "eval19-final.log"]:
    for k, v in parse(os.path.join(SRC, f)).items():
        evals.setdefault(k, []).append(v)

os.makedirs(DST, exist_ok=True)
for sid in sorted(confirm):
    c = confirm[sid]
    ok = all(x in c for x in ("clean:pass", "apply:ok", "mutant-demo:fail", "suite:pass"))
    if not ok:
        print("skip (not confirmed):", sid, c)
        continue
    d = os.path.join(DST, sid)
    os.makedirs(d, exist_ok=True)
    for f in ("patch.diff", "demo_test.go"):
        shutil.copy(os.path.join(SRC, sid, f), os.path.join(d, f))
    meta = json.load(open(os.path.join(SRC, sid, "meta.json")))
    detected = {}
    for line in evals.get(sid, []):
        for m in re.finditer(r"== (C\d\d) (\w+) exit=(\d+)", line):
            detected[m.group(1)] = {"tier": m.group(2), "exit": int(m.group(3))}
    old = {}
    if os.path.exists(os.path.join(d, "meta.json")):
        old = json.load(open(os.path.join(d, "meta.json")))
    prev = old.get("checks_run", {})
    prev.update(detected)
    out = {
        "id": sid,
        "property": (meta.get("property") or "")[:3],
        "summary": meta.get("summary"),
        "needs": meta.get("needs"),
        "files": meta.get("files"),
        "demo_test": meta.get("demo_test"),
        "demo_flags": meta.get("demo_flags"),
        "origin": "produced by an independent sub-agent that saw only the property text and a scratch worktree of /repo",
        "confirmed": {"how": "tools/confirm_seed.sh in a fresh scratch worktree of /repo HEAD: demo on clean tree, git apply, demo with the change, repository suite with the change",
                      "result": c},
        "checks_run": prev,
        "detected_by": sorted(k for k, v in prev.items() if v["exit"] == 1),
    }
    if old.get("note"):
        out["note"] = old["note"]
    json.dump(out, open(os.path.join(d, "meta.json"), "w"), indent=1)
    print(sid, "->", out["detected_by"] or "NOT DETECTED", prev)

# ---- README table ----
rows = []
for sid in sorted(os.listdir(DST)):
    mp = os.path.join(DST, sid, "meta.json")
    if not os.path.exists(mp):
        continue
    m = json.load(open(mp))
    det = ", ".join(m.get("detected_by") or []) or "**not detected** (see note in meta.json)"
    ran = ", ".join(f"{k}:{'VIOLATION' if v['exit']==1 else 'exit '+str(v['exit'])}" for k, v in sorted(m.get("checks_run", {}).items()))
    rows.append(f"| {sid} | {m.get('property')} | {(m.get('summary') or '').replace('|','/')[:160]} | {(m.get('needs') or '').replace('|','/')[:200]} | {det} | {ran} |")
with open(os.path.join(DST, "README.md"), "w") as f:
    f.write("# Seeded property-breaking changes\n\nEach directory: `patch.diff` (apply to a scratch worktree of /repo HEAD with `git apply`), `demo_test.go` (fails with the change, passes without), `meta.json`.\n"
            "All were confirmed with `tools/confirm_seed.sh` (demo passes on the clean tree, patch applies, demo fails with it, the repository's own suite passes with it) and evaluated with `tools/try_patch.sh` (quick tier).\n\n"
            "| id | property | change | needs | detected by | checks run |\n|---|---|---|---|---|---|\n" + "\n".join(rows) + "\n")
print("README written with", len(rows), "rows")
