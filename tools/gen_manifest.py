#!/usr/bin/env python3
"""Regenerates /verif/MANIFEST.json from the table below (kept in one place so that the
manifest stays valid while checks come online)."""
import json, subprocess, os

ROOT = os.path.dirname(os.path.dirname(os.path.abspath(__file__)))

E1_NOTE = ("Exhaustive relative to the listed universes (key alphabets, setup histories, query argument sets) on amd64 / Go 1.24; "
           "closure to fixpoint on a structural state key whose erasures (dead inline path bytes, free node16 lanes, node48 slot numbers) are "
           "guarded by raw variants and a poison differential; the reference models (ideal map, oracle comparators written without the library's "
           "encoders) and the verif-tagged structural walker are trusted.")
E1_TECH = "explicit-state BFS to closure over operation histories of the real trees, checked against a reference model in every reachable state (model checking of the implementation)"

CHECKS = {
 "C01": ("model_checking", "E1-HIST", E1_TECH, E1_NOTE,
         "Every Insert/Delete history (closure; plus warmed, poisoned and drain-to-empty variants of every transition/state) over each small key universe (all six kinds, ~20 key-type instantiations, fan-out windows across every size-class boundary, paths around the 10-byte inline limit, 0x00..0xFF branch bytes) is explored to closure on the real trees; every call result and Search of every probe in every reachable state is compared with an ideal map. Known finding D9 (NUL-terminator scheme) is reported as KNOWN-FINDING."),
 "C02": ("model_checking", "E1-HIST", E1_TECH, E1_NOTE,
         "All()/Backward() are compared with the reference sorted by an independent comparator in every reachable state of the closures."),
 "C03": ("model_checking", "E1-HIST", E1_TECH, E1_NOTE,
         "Range(a,b) for every ordered pair of a bound set (present/absent/equal/reversed/empty end/long shared prefixes) is compared with the filtered sorted reference in every reachable state; the property's carve-outs are applied exactly."),
 "C04": ("model_checking", "E1-HIST", E1_TECH, E1_NOTE,
         "Prefix(p) for every p of a prefix set (empty, keys, cuts at 1/9/10/11/12/len-1, key+1 byte, sibling continuations) is compared with the HasPrefix-filtered reference in every reachable state, byte-string and root-collator collation trees."),
 "C05": ("model_checking", "E1-HIST", E1_TECH, E1_NOTE,
         "Minimum/Maximum/TopK(n)/BottomK(n) for every n in 0..size+2 and MaxUint are compared with the sorted reference in every reachable state (incl. empty, singleton, emptied trees)."),
 "C06": ("model_checking", "E1-HIST", E1_TECH, E1_NOTE,
         "Size() is compared with the reference cardinality after every transition, and with len(All()) and again after read-only queries in every reachable state."),
 "C07": ("exploration", "E3-CODEC", "exhaustive enumeration of key values in the type's total order (bounded exhaustive input enumeration; chain of adjacent pairs)",
         "Complete for all <=32-bit types (thorough; quick: 8/16-bit complete, 32-bit boundary windows); 64-bit types on a stated lattice with +-1 neighbours; the oracle order is generated from bit patterns.",
         "Every value of the enumerated domain is encoded and decoded: fixed length, bit-exact round trip, strictly increasing encoding along the total order (implies injectivity and order isomorphism on the domain), all NaNs alike and lowest."),
 "C08": ("model_checking", "E1-HIST", E1_TECH, E1_NOTE + " golang.org/x/text is trusted to order Key bytes consistently with Compare.",
         "Closures over multilingual string universes x 8 collator configurations x {string,[]byte,[]rune}: map behaviour, iteration order (second collator instance's Compare), extremes and Size in every reachable state; keys returned byte-identical."),
 "C09": ("model_checking", "E1-HIST", E1_TECH, E1_NOTE,
         "Exhaustive schema enumeration (all field sequences of length 1..2, thorough 1..3 plus all length-4 schemas over 4 representative types, each with and without a terminated string tail); per schema a closure over a tuple universe with the map/iteration/range/extremes/size/structure suites against an independent tuple comparator."),
 "C10": ("model_checking", "E2-NODE", "explicit-state BFS to closure over add/remove sequences on a bare inner node with the raw node state as key, plus exhaustive primitive input domains",
         "Node closures over boundary alphabets and size-class windows (raw node state incl. stale lanes and node48 slot layout); primitive domains as stated; amd64 assembly + portable fallback (GOARCH=386), arm64 assembly cannot be executed here.",
         "In every reachable node state all 256 bytes are probed, enumeration order/min/max/fan-out/path carried checked; the 4-slot and 16-slot search/insert-position primitives are compared with a scalar scan on exhaustive domains; tree-level single-byte closures probe all 256 keys through the trees' inlined lookups."),
 "C11": ("model_checking", "E1-HIST", E1_TECH, E1_NOTE,
         "After every transition the structural dump is compared with the canonical compressed radix tree rebuilt from the reference key set (descent, branch bytes, path lengths and inline bytes, fan-out vs capacity, slot bijection, reachable leaves == Size, history independence)."),
 "C12": ("model_checking", "E1-PRODUCT", "explicit-state BFS to closure over interleaved histories of several real trees with the sync.Pool's behaviour as an enumerated environment choice",
         "GOMAXPROCS(1), collector off inside a job (pool order then controlled through the verif drain/refill hooks, self-tested at job start); verdicts behavioural only; universes park one node per tree at a release/acquire threshold of each size class.",
         "Product closure of 2 (thorough 3) trees of mixed kinds over the real sync.Pool with enumerated hand-out order and 'Get answers New()' deviations; after every transition every tree is compared with its own ideal map and canonical structure (emptied tree == new tree); from every new state a deterministic fill/drain epilogue drives every tree through all four size classes twice so that latent damage in recycled nodes becomes a wrong result."),
 "C13": ("model_checking", "E1-HIST", E1_TECH, E1_NOTE,
         "Closures on alpha[[]byte] and collation[[]byte] trees with every key argument passed in each of five buffer modes (exactly full; sub-slice of a live sentinel-framed or zero-filled array; one reused scanner buffer, sentinel- or zero-filled), keys of 15..1025 bytes included: as soon as a call has returned (also one returning a sequence) the whole backing array must equal its snapshot and is then overwritten; the tree and every sequence obtained earlier must still return the inserted keys. Compound trees: the codec's output arena must stay untouched."),
 "C14": ("model_checking", "E1-HIST", E1_TECH, E1_NOTE,
         "For every sequence method (incl. collation Range) in every reachable state: every stop position, callbacks after false counted, a complete and an abandoned pass nested inside an outer pass over the same value, then two more full passes (other read-only calls in between) must equal the first."),
 "C15": ("model_checking", "E1-HIST", E1_TECH, E1_NOTE,
         "Complete raw structural dump (stale lanes, all inline bytes, size) compared before/after every group of queries (incl. arguments that are sub-slices of keys the tree returned), every Delete(absent) and every overwrite, in every reachable state; sequences consumed with other read-only calls interleaved must yield the same; every transition is also executed on a history with read-only calls after every operation and must give a byte-identical tree and identical later results."),
 "C16": ("model_checking", "E4-SCHED", "stateless model checking: all goroutine schedules with a bounded number of preemptions at statement granularity on an overlay-instrumented build, plus a separate free-running -race pass",
         "Sequential consistency at statement granularity; sync.Pool modelled as a linearizable list inside the controlled scheduler; <= 2 preemptions (thorough: 3 for two goroutines, 3 goroutines with 2); the -race pass is sampling and reported separately.",
         "Every schedule within the preemption bound of 2-3 goroutines on private trees with pool traffic on every size class, and of concurrent read-only query mixes on one shared tree, must give every goroutine its sequential observations, leave every tree well-formed and the shared tree byte-identical; a free-running -race pass of the same bodies must be report-free."),
 "C17": ("exploration", "E5-HEAP", "exhaustive enumeration of (reachable state, operation cycle) pairs of small closures; per pair a live-heap measurement after forced collections against a fixed threshold",
         "The set of (state, cycle) pairs is exhaustive for the listed universes; the verdict per pair is a measurement (HeapAlloc after two forced GCs) with thresholds two orders of magnitude from both behaviours; violations are re-measured before being reported.",
         "Every operation cycle (queries, overwrites, absent deletes, delete/insert churn incl. grow/shrink thresholds) of every reachable state is pumped 4*10^4 times and the live heap must not grow; 200 trees per state are churned and emptied and must retain only a small constant; a sliding window over an unbounded stream of fresh keys is pumped for every (key-group shape, deletion order) pair at bounded size."),
 "C18": ("model_checking", "E1-HIST", E1_TECH + "; the garbage collector is an enumerated environment event",
         "Collections at operation boundaries only (every position; thorough: every subset of positions for histories <= 8 operations); GODEBUG=clobberfree=1, GC percent 1, checkptr-instrumented build; collections inside operations are not explored by this check.",
         "Closures for every tree kind x 9 value types (incl. 1- and 3-byte values and 100/300-byte compressed paths) with keys/values as fresh heap objects referenced only by the tree and a forced collection after every operation; deep equality of every stored key and value with the reference in every reachable state; checkptr faults and runtime fatal errors are violations."),
 "C19": ("translation_validation", "E6-GEN", "complete enumeration of the five template instantiations, byte comparison with the repository generator's formatted output",
         "text/template and gofmt of the pinned toolchain are trusted.",
         "Runs the repository's own generator on the working tree's template (both initial states of the output file) and compares each of the five instantiations byte-for-byte."),
}

PENDING = {
}

def main():
    hooks = subprocess.check_output(["git", "-C", "/repo", "log", "--format=%h", "--grep=^verif:"]).decode().split()
    checks = []
    for pid in sorted(CHECKS):
        level, engine, tech, note, text = CHECKS[pid]
        checks.append({
            "property_id": pid,
            "quick_cmd": f"./check {pid} quick",
            "thorough_cmd": f"./check {pid} thorough",
            "evidence_file": f"/verif/evidence/{pid}.json",
            "replay_cmd_template": "./check replay {path}",
            "engine": engine,
            "level_claimed": {"category": level, "text": text, "design_ref": f"DESIGN.md §5/{pid}"},
            "level_note": note,
            "technique": tech,
        })
    na = [{"property_id": p, "reason": r} for p, r in sorted(PENDING.items()) if p not in CHECKS]
    engines = {}
    for pid, (level, engine, tech, note, text) in CHECKS.items():
        engines.setdefault(engine, []).append(pid)
    paths = {"E1-HIST": "/verif/harness/hist", "E1-PRODUCT": "/verif/harness/hist/product.go", "E2-NODE": "/verif/harness/nodex", "E3-CODEC": "/verif/harness/codec", "E6-GEN": "/verif/harness/cmd/vcheck/c19.go",
             "E4-SCHED": "/verif/harness/sched", "E5-HEAP": "/verif/harness/hist"}
    kinds = {"E1-PRODUCT": "product closure of several real trees over the real sync.Pool with hook-controlled hand-out order",
             "E1-HIST": "explicit-state breadth-first search to closure over Insert/Delete histories of real go-art trees; successor = replay of the shortest path on a fresh tree + one operation; per-property monitors",
             "E2-NODE": "explicit-state closure over a bare inner node + exhaustive primitive sweeps",
             "E3-CODEC": "exhaustive value enumeration in the oracle's total order",
             "E6-GEN": "runs the repository's generator and compares instantiations",
             "E4-SCHED": "stateless exploration of schedules / environment events at statement granularity on an overlay-instrumented build",
             "E5-HEAP": "heap probe over (state, operation cycle) pairs"}
    m = {
        "version": 1,
        "setup_cmd": "./check setup",
        "hooks": {"guard": "verif (Go build tag)",
                  "enable": "go build -tags verif (harness module /verif/harness, replace github.com/Clement-Jean/go-art => /repo)",
                  "baseline_off_cmd": "cd /repo && GOFLAGS=-mod=mod GOPROXY=off go test -vet=off -count=1 ./...",
                  "source_commits": hooks, "add_only": True},
        "engines": [{"name": e, "path": paths.get(e, ""), "serves_properties": sorted(ps), "kind_free_text": kinds.get(e, "")} for e, ps in sorted(engines.items())],
        "checks": checks,
        "not_applicable": na,
        "notes": "See DESIGN.md. known_findings.json lists genuine defects (fixed / known). seeded/ holds independently produced property-breaking changes and which checks catch them.",
    }
    json.dump(m, open(os.path.join(ROOT, "MANIFEST.json"), "w"), indent=1)

if __name__ == "__main__":
    main()
