#!/bin/bash
# tools/eval_seeds.sh <dir-with-seeds> [tier] — run each seed's own property check against the seeded change
cd "$(dirname "$0")/.."
tier="${2:-quick}"
for d in "$1"/C*-*/; do
  id=$(basename "$d"); prop=$(python3 -c "import json;print(json.load(open('$d/meta.json'))['property'][:3])")
  extra=$(python3 -c "import json;print(','.join(json.load(open('$d/meta.json')).get('also_checks',[])))" 2>/dev/null)
  props="$prop"; [ -n "$extra" ] && props="$prop,$extra"
  if [ ! -f harness/cmd/vcheck/main.go ]; then echo no harness; exit 2; fi
  if ! grep -q "\"$prop\"" MANIFEST.json 2>/dev/null; then :; fi
  out=$(./tools/try_patch.sh "$d/patch.diff" "$props" "$tier" 2>&1); rc=$?
  echo "$id rc=$rc $(echo "$out" | grep -c '^VIOLATION') violations | $(echo "$out" | grep '^== ' | tr '\n' ' ')"
done
