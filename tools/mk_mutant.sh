#!/bin/bash
# tools/mk_mutant.sh <out.diff> <file> <python-expr operating on variable s>   — craft a one-off mutant patch in a scratch worktree
set -e
out="$1"; file="$2"; expr="$3"
wt="$(mktemp -d /tmp/vp-mk-XXXXXX)"; rmdir "$wt"
git -C /repo worktree add -q --detach "$wt" HEAD
trap 'git -C /repo worktree remove --force "$wt" 2>/dev/null; rm -rf "$wt"' EXIT
python3 - "$wt/$file" "$expr" <<'PY'
import sys
p,expr=sys.argv[1],sys.argv[2]
s=open(p).read()
s0=s
exec(expr)
assert s!=s0, "mutation did not change the file"
open(p,'w').write(s)
PY
if [ "$file" = "cmd/go-art/tree.tmpl" ]; then /verif/regen.sh "$wt"; fi
git -C "$wt" diff > "$out"
echo "wrote $out ($(wc -l < "$out") lines)"
