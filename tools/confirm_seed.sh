#!/bin/bash
# tools/confirm_seed.sh <seed-dir>  — independent confirmation of a seeded change:
#  demo passes on clean HEAD, patch applies, repo suite passes with it, demo fails with it.
set -u
dir="$(realpath "$1")"
cd "$(dirname "$0")/.."
source ./env.sh
test_name=$(python3 -c "import json,sys;print(json.load(open('$dir/meta.json'))['demo_test'])")
flags=$(python3 -c "
import json
f=str(json.load(open('$dir/meta.json')).get('demo_flags',''))
o=[]
if '-race' in f and 'not needed' not in f: o.append('-race')
if 'checkptr' in f: o.append('-gcflags=all=-d=checkptr')
print(' '.join(o))")
demo_env=$(python3 -c "
import json
f=str(json.load(open('$dir/meta.json')).get('demo_flags',''))
print('GOARCH=386' if 'GOARCH=386' in f else '')")
wt="$(mktemp -d /tmp/vp-confirm-XXXXXX)"; rmdir "$wt"
git -C /repo worktree add -q --detach "$wt" HEAD || exit 2
trap 'git -C /repo worktree remove --force "$wt" 2>/dev/null; rm -rf "$wt"' EXIT
cp "$dir/demo_test.go" "$wt/zz_seed_demo_test.go"
res=""
if (cd "$wt" && env $demo_env "$VGO" test $flags -vet=off -count=1 -run "^${test_name}\$" . >/dev/null 2>&1); then res="clean:pass"; else res="clean:FAIL"; fi
if git -C "$wt" apply "$dir/patch.diff" 2>/dev/null; then res="$res apply:ok"; else echo "$(basename $dir) $res apply:FAIL"; exit 1; fi
if (cd "$wt" && env $demo_env "$VGO" test $flags -vet=off -count=1 -run "^${test_name}\$" . >/dev/null 2>&1); then res="$res mutant-demo:pass(BAD)"; else res="$res mutant-demo:fail"; fi
rm "$wt/zz_seed_demo_test.go"
if (cd "$wt" && "$VGO" test -vet=off -count=1 ./... >/dev/null 2>&1); then res="$res suite:pass"; else res="$res suite:FAIL"; fi
echo "$(basename $dir) $res"
